//! rta-facts: a rustc_private driver that serialises the type-checked HIR of
//! selected crates as JSON ("facts").  It is used as RUSTC_WORKSPACE_WRAPPER
//! under `cargo +nightly check`; it compiles normally and, after analysis,
//! writes one JSON file (path in $RTA_FACTS_OUT) for every crate whose name is
//! listed in $RTA_FACTS_CRATES (comma separated).
//!
//! Nothing is decided here.  The rule engine (../sa) reads the facts.
#![feature(rustc_private)]

extern crate rustc_ast;
extern crate rustc_driver;
extern crate rustc_hir;
extern crate rustc_interface;
extern crate rustc_middle;
extern crate rustc_span;

use rustc_driver::Compilation;
use rustc_hir as hir;
use rustc_hir::def::{DefKind, Res};
use rustc_middle::ty::print::with_no_trimmed_paths;
use rustc_middle::ty::{TyCtxt, TypeckResults};
use rustc_span::def_id::{DefId, LocalDefId, LOCAL_CRATE};
use rustc_span::hygiene::ExpnKind;
use rustc_span::Span;
use std::fmt::Write as _;

// ---------------------------------------------------------------- JSON

#[derive(Clone)]
enum J {
    Null,
    B(bool),
    N(i64),
    S(String),
    A(Vec<J>),
    O(Vec<(&'static str, J)>),
}

fn esc(s: &str, out: &mut String) {
    out.push('"');
    for c in s.chars() {
        match c {
            '"' => out.push_str("\\\""),
            '\\' => out.push_str("\\\\"),
            '\n' => out.push_str("\\n"),
            '\r' => out.push_str("\\r"),
            '\t' => out.push_str("\\t"),
            c if (c as u32) < 0x20 => {
                let _ = write!(out, "\\u{:04x}", c as u32);
            }
            c => out.push(c),
        }
    }
    out.push('"');
}

impl J {
    fn write(&self, out: &mut String) {
        match self {
            J::Null => out.push_str("null"),
            J::B(b) => out.push_str(if *b { "true" } else { "false" }),
            J::N(n) => {
                let _ = write!(out, "{}", n);
            }
            J::S(s) => esc(s, out),
            J::A(v) => {
                out.push('[');
                for (i, x) in v.iter().enumerate() {
                    if i > 0 {
                        out.push(',');
                    }
                    x.write(out);
                }
                out.push(']');
            }
            J::O(v) => {
                out.push('{');
                for (i, (k, x)) in v.iter().enumerate() {
                    if i > 0 {
                        out.push(',');
                    }
                    esc(k, out);
                    out.push(':');
                    x.write(out);
                }
                out.push('}');
            }
        }
    }
}

fn s<T: Into<String>>(x: T) -> J {
    J::S(x.into())
}

fn opt(x: Option<J>) -> J {
    x.unwrap_or(J::Null)
}

// ---------------------------------------------------------------- visitor

struct Ser<'tcx> {
    tcx: TyCtxt<'tcx>,
    typeck: &'tcx TypeckResults<'tcx>,
    nodes: usize,
}

impl<'tcx> Ser<'tcx> {
    fn path(&self, did: DefId) -> String {
        with_no_trimmed_paths!(self.tcx.def_path_str(did))
    }

    fn ty_of(&self, e: &hir::Expr<'tcx>) -> String {
        with_no_trimmed_paths!(format!("{}", self.typeck.expr_ty(e)))
    }

    fn ty_adj(&self, e: &hir::Expr<'tcx>) -> String {
        with_no_trimmed_paths!(format!("{}", self.typeck.expr_ty_adjusted(e)))
    }

    /// file:line:col of the call site (outside of any macro), plus expansion info.
    fn span_fields(&self, sp: Span, out: &mut Vec<(&'static str, J)>) {
        let sm = self.tcx.sess.source_map();
        let call = sp.source_callsite();
        let lo = sm.lookup_char_pos(call.lo());
        let hi = sm.lookup_char_pos(call.hi());
        let file = match &lo.file.name {
            rustc_span::FileName::Real(r) => match r.local_path() {
                Some(p) => p.to_string_lossy().to_string(),
                None => format!("{:?}", lo.file.name),
            },
            other => format!("{:?}", other),
        };
        out.push(("file", s(file)));
        out.push(("line", J::N(lo.line as i64)));
        out.push(("col", J::N(lo.col.0 as i64 + 1)));
        out.push(("eline", J::N(hi.line as i64)));
        out.push(("ecol", J::N(hi.col.0 as i64 + 1)));
        if sp.from_expansion() {
            let mut macs = Vec::new();
            for d in sp.macro_backtrace() {
                match d.kind {
                    ExpnKind::Macro(_, name) => macs.push(s(name.as_str())),
                    _ => {}
                }
            }
            let outer = sp.ctxt().outer_expn_data();
            match outer.kind {
                ExpnKind::Desugaring(k) => out.push(("desugar", s(format!("{:?}", k)))),
                ExpnKind::AstPass(k) => out.push(("astpass", s(format!("{:?}", k)))),
                _ => {}
            }
            out.push(("mac", J::A(macs)));
        }
    }

    fn res(&self, res: Res, out: &mut Vec<(&'static str, J)>) {
        match res {
            Res::Local(hid) => {
                out.push(("res", s("Local")));
                out.push(("id", J::N(hid.local_id.as_u32() as i64)));
            }
            Res::Def(kind, did) => {
                out.push(("res", s("Def")));
                out.push(("defkind", s(format!("{:?}", kind))));
                out.push(("def", s(self.path(did))));
                out.push(("local", J::B(did.is_local())));
                if let DefKind::Ctor(..) = kind {
                    // the constructor's parent is the struct/variant
                    out.push(("ctor_of", s(self.path(self.tcx.parent(did)))));
                }
            }
            Res::SelfCtor(did) => {
                out.push(("res", s("SelfCtor")));
                out.push(("def", s(self.path(did))));
            }
            Res::SelfTyAlias { alias_to, .. } => {
                out.push(("res", s("SelfTyAlias")));
                out.push(("def", s(self.path(alias_to))));
            }
            Res::SelfTyParam { trait_ } => {
                out.push(("res", s("SelfTyParam")));
                out.push(("def", s(self.path(trait_))));
            }
            Res::PrimTy(p) => {
                out.push(("res", s("PrimTy")));
                out.push(("def", s(p.name_str())));
            }
            other => {
                out.push(("res", s(format!("{:?}", other))));
            }
        }
    }

    fn qpath(&self, qp: &hir::QPath<'tcx>, hir_id: hir::HirId, out: &mut Vec<(&'static str, J)>) {
        let res = self.typeck.qpath_res(qp, hir_id);
        self.res(res, out);
        let name = match qp {
            hir::QPath::Resolved(_, p) => p
                .segments
                .iter()
                .map(|sg| sg.ident.as_str().to_string())
                .collect::<Vec<_>>()
                .join("::"),
            hir::QPath::TypeRelative(_, seg) => format!("<_>::{}", seg.ident.as_str()),
        };
        out.push(("name", s(name)));
        // For associated items reached through a type (`Duration::from`,
        // `Task::rbf`), record the substituted self/generic arguments.
        if let Some(args) = self.typeck.node_args_opt(hir_id) {
            let v: Vec<J> = args
                .iter()
                .map(|a| s(with_no_trimmed_paths!(format!("{}", a))))
                .collect();
            if !v.is_empty() {
                out.push(("targs", J::A(v)));
            }
        }
    }

    fn lit(&self, l: &hir::Lit) -> J {
        use rustc_ast::ast::LitKind;
        match l.node {
            LitKind::Int(v, _) => J::O(vec![("lk", s("Int")), ("v", s(format!("{}", v.get())))]),
            LitKind::Bool(b) => J::O(vec![("lk", s("Bool")), ("v", J::B(b))]),
            LitKind::Float(sym, _) => J::O(vec![("lk", s("Float")), ("v", s(sym.as_str()))]),
            LitKind::Str(sym, _) => J::O(vec![("lk", s("Str")), ("v", s(sym.as_str()))]),
            LitKind::Char(c) => J::O(vec![("lk", s("Char")), ("v", s(c.to_string()))]),
            _ => J::O(vec![("lk", s("Other"))]),
        }
    }

    fn pat(&mut self, p: &'tcx hir::Pat<'tcx>) -> J {
        let mut o: Vec<(&'static str, J)> = Vec::new();
        let ty = with_no_trimmed_paths!(format!("{}", self.typeck.pat_ty(p)));
        match p.kind {
            hir::PatKind::Wild | hir::PatKind::Missing => o.push(("k", s("Wild"))),
            hir::PatKind::Binding(mode, hid, ident, sub) => {
                o.push(("k", s("Bind")));
                o.push(("id", J::N(hid.local_id.as_u32() as i64)));
                o.push(("name", s(ident.as_str())));
                o.push(("mut", J::B(matches!(mode.1, hir::Mutability::Mut))));
                o.push(("byref", J::B(matches!(mode.0, hir::ByRef::Yes(..)))));
                if let Some(sp) = sub {
                    o.push(("sub", self.pat(sp)));
                }
            }
            hir::PatKind::Struct(ref qp, fields, _) => {
                o.push(("k", s("Struct")));
                let mut r = Vec::new();
                self.qpath(qp, p.hir_id, &mut r);
                o.push(("path", J::O(r)));
                let fs = fields
                    .iter()
                    .map(|f| J::O(vec![("name", s(f.ident.as_str())), ("p", self.pat(f.pat))]))
                    .collect();
                o.push(("fields", J::A(fs)));
            }
            hir::PatKind::TupleStruct(ref qp, ps, _) => {
                o.push(("k", s("TupleStruct")));
                let mut r = Vec::new();
                self.qpath(qp, p.hir_id, &mut r);
                o.push(("path", J::O(r)));
                o.push(("ps", J::A(ps.iter().map(|x| self.pat(x)).collect())));
            }
            hir::PatKind::Or(ps) => {
                o.push(("k", s("Or")));
                o.push(("ps", J::A(ps.iter().map(|x| self.pat(x)).collect())));
            }
            hir::PatKind::Tuple(ps, _) => {
                o.push(("k", s("Tuple")));
                o.push(("ps", J::A(ps.iter().map(|x| self.pat(x)).collect())));
            }
            hir::PatKind::Box(q) | hir::PatKind::Deref(q) => {
                o.push(("k", s("Deref")));
                o.push(("p", self.pat(q)));
            }
            hir::PatKind::Ref(q, _, _) => {
                o.push(("k", s("Ref")));
                o.push(("p", self.pat(q)));
            }
            hir::PatKind::Expr(pe) => match pe.kind {
                hir::PatExprKind::Lit { lit, negated } => {
                    o.push(("k", s("Lit")));
                    o.push(("lit", self.lit(&lit)));
                    o.push(("neg", J::B(negated)));
                }
                hir::PatExprKind::Path(ref qp) => {
                    o.push(("k", s("Path")));
                    let mut r = Vec::new();
                    self.qpath(qp, pe.hir_id, &mut r);
                    o.push(("path", J::O(r)));
                }
            },
            hir::PatKind::Guard(q, g) => {
                o.push(("k", s("Guard")));
                o.push(("p", self.pat(q)));
                o.push(("g", self.expr(g)));
            }
            hir::PatKind::Range(..) => o.push(("k", s("Range"))),
            hir::PatKind::Slice(a, m, b) => {
                o.push(("k", s("Slice")));
                let mut v: Vec<J> = a.iter().map(|x| self.pat(x)).collect();
                if let Some(m) = m {
                    v.push(self.pat(m));
                }
                v.extend(b.iter().map(|x| self.pat(x)));
                o.push(("ps", J::A(v)));
            }
            hir::PatKind::Never | hir::PatKind::Err(_) => o.push(("k", s("Other"))),
        }
        o.push(("ty", s(ty)));
        J::O(o)
    }

    fn block(&mut self, b: &'tcx hir::Block<'tcx>) -> J {
        let mut o: Vec<(&'static str, J)> = vec![("k", s("Block"))];
        let mut stmts = Vec::new();
        for st in b.stmts {
            let mut so: Vec<(&'static str, J)> = Vec::new();
            match st.kind {
                hir::StmtKind::Let(l) => {
                    so.push(("k", s("Let")));
                    so.push(("pat", self.pat(l.pat)));
                    so.push(("init", opt(l.init.map(|e| self.expr(e)))));
                    so.push(("els", opt(l.els.map(|b| self.block(b)))));
                    so.push(("src", s(format!("{:?}", l.source))));
                }
                hir::StmtKind::Item(_) => {
                    so.push(("k", s("Item")));
                }
                hir::StmtKind::Expr(e) => {
                    so.push(("k", s("Expr")));
                    so.push(("e", self.expr(e)));
                }
                hir::StmtKind::Semi(e) => {
                    so.push(("k", s("Semi")));
                    so.push(("e", self.expr(e)));
                }
            }
            self.span_fields(st.span, &mut so);
            stmts.push(J::O(so));
        }
        o.push(("stmts", J::A(stmts)));
        o.push(("expr", opt(b.expr.map(|e| self.expr(e)))));
        self.span_fields(b.span, &mut o);
        J::O(o)
    }

    fn expr(&mut self, e: &'tcx hir::Expr<'tcx>) -> J {
        self.nodes += 1;
        let mut o: Vec<(&'static str, J)> = Vec::new();
        match e.kind {
            hir::ExprKind::ConstBlock(_) => o.push(("k", s("ConstBlock"))),
            hir::ExprKind::Array(es) => {
                o.push(("k", s("Array")));
                o.push(("es", J::A(es.iter().map(|x| self.expr(x)).collect())));
            }
            hir::ExprKind::Call(f, args) => {
                o.push(("k", s("Call")));
                if let hir::ExprKind::Path(ref qp) = f.kind {
                    let mut r = Vec::new();
                    self.qpath(qp, f.hir_id, &mut r);
                    // flatten the callee resolution into the call node
                    for (k, v) in r.iter() {
                        if *k == "def" {
                            o.push(("callee", v.clone()));
                        }
                    }
                    o.push(("fnpath", J::O(r)));
                }
                o.push(("f", self.expr(f)));
                o.push(("args", J::A(args.iter().map(|x| self.expr(x)).collect())));
            }
            hir::ExprKind::MethodCall(seg, recv, args, _) => {
                o.push(("k", s("MethodCall")));
                o.push(("name", s(seg.ident.as_str())));
                if let Some(did) = self.typeck.type_dependent_def_id(e.hir_id) {
                    o.push(("callee", s(self.path(did))));
                    o.push(("callee_local", J::B(did.is_local())));
                    if let Some(tr) = self.tcx.trait_of_assoc(did) {
                        o.push(("callee_trait", s(self.path(tr))));
                    }
                }
                if let Some(args) = self.typeck.node_args_opt(e.hir_id) {
                    let v: Vec<J> = args
                        .iter()
                        .map(|a| s(with_no_trimmed_paths!(format!("{}", a))))
                        .collect();
                    o.push(("targs", J::A(v)));
                }
                o.push(("recv_ty", s(self.ty_adj(recv))));
                o.push(("recv", self.expr(recv)));
                o.push(("args", J::A(args.iter().map(|x| self.expr(x)).collect())));
            }
            hir::ExprKind::Use(x, _) => {
                o.push(("k", s("Use")));
                o.push(("e", self.expr(x)));
            }
            hir::ExprKind::Tup(es) => {
                o.push(("k", s("Tup")));
                o.push(("es", J::A(es.iter().map(|x| self.expr(x)).collect())));
            }
            hir::ExprKind::Binary(op, l, r) => {
                o.push(("k", s("Binary")));
                o.push(("op", s(format!("{:?}", op.node))));
                if let Some(did) = self.typeck.type_dependent_def_id(e.hir_id) {
                    o.push(("callee", s(self.path(did))));
                }
                o.push(("lty", s(self.ty_of(l))));
                o.push(("rty", s(self.ty_of(r))));
                o.push(("l", self.expr(l)));
                o.push(("r", self.expr(r)));
            }
            hir::ExprKind::Unary(op, x) => {
                o.push(("k", s("Unary")));
                o.push(("op", s(format!("{:?}", op))));
                if let Some(did) = self.typeck.type_dependent_def_id(e.hir_id) {
                    o.push(("callee", s(self.path(did))));
                }
                o.push(("e", self.expr(x)));
            }
            hir::ExprKind::Lit(l) => {
                o.push(("k", s("Lit")));
                o.push(("lit", self.lit(&l)));
            }
            hir::ExprKind::Cast(x, _) => {
                o.push(("k", s("Cast")));
                o.push(("from", s(self.ty_of(x))));
                o.push(("e", self.expr(x)));
            }
            hir::ExprKind::Type(x, _) => {
                o.push(("k", s("Type")));
                o.push(("e", self.expr(x)));
            }
            hir::ExprKind::DropTemps(x) => {
                o.push(("k", s("DropTemps")));
                o.push(("e", self.expr(x)));
            }
            hir::ExprKind::Let(l) => {
                o.push(("k", s("LetExpr")));
                o.push(("pat", self.pat(l.pat)));
                o.push(("init", self.expr(l.init)));
            }
            hir::ExprKind::If(c, t, el) => {
                o.push(("k", s("If")));
                o.push(("c", self.expr(c)));
                o.push(("t", self.expr(t)));
                o.push(("e", opt(el.map(|x| self.expr(x)))));
            }
            hir::ExprKind::Loop(b, _, src, _) => {
                o.push(("k", s("Loop")));
                o.push(("src", s(format!("{:?}", src))));
                o.push(("body", self.block(b)));
            }
            hir::ExprKind::Match(scrut, arms, src) => {
                o.push(("k", s("Match")));
                o.push(("src", s(format!("{:?}", src))));
                o.push(("scrut", self.expr(scrut)));
                let mut av = Vec::new();
                for a in arms {
                    let mut ao: Vec<(&'static str, J)> = Vec::new();
                    ao.push(("pat", self.pat(a.pat)));
                    ao.push(("guard", opt(a.guard.map(|g| self.expr(g)))));
                    ao.push(("body", self.expr(a.body)));
                    av.push(J::O(ao));
                }
                o.push(("arms", J::A(av)));
            }
            hir::ExprKind::Closure(c) => {
                o.push(("k", s("Closure")));
                o.push(("def", s(self.path(c.def_id.to_def_id()))));
                o.push((
                    "move",
                    J::B(matches!(c.capture_clause, hir::CaptureBy::Value { .. })),
                ));
                let old = self.typeck;
                self.typeck = self.tcx.typeck(c.def_id);
                let body = self.tcx.hir_body(c.body);
                let params: Vec<J> = body.params.iter().map(|p| self.pat(p.pat)).collect();
                o.push(("params", J::A(params)));
                o.push(("body", self.expr(body.value)));
                self.typeck = old;
            }
            hir::ExprKind::Block(b, _) => {
                return self.block_as_expr(b, e);
            }
            hir::ExprKind::Assign(l, r, _) => {
                o.push(("k", s("Assign")));
                o.push(("l", self.expr(l)));
                o.push(("r", self.expr(r)));
            }
            hir::ExprKind::AssignOp(op, l, r) => {
                o.push(("k", s("AssignOp")));
                o.push(("op", s(format!("{:?}", op.node))));
                if let Some(did) = self.typeck.type_dependent_def_id(e.hir_id) {
                    o.push(("callee", s(self.path(did))));
                }
                o.push(("lty", s(self.ty_of(l))));
                o.push(("rty", s(self.ty_of(r))));
                o.push(("l", self.expr(l)));
                o.push(("r", self.expr(r)));
            }
            hir::ExprKind::Field(x, ident) => {
                o.push(("k", s("Field")));
                o.push(("name", s(ident.as_str())));
                o.push(("base_ty", s(self.ty_adj(x))));
                o.push(("e", self.expr(x)));
            }
            hir::ExprKind::Index(x, i, _) => {
                o.push(("k", s("Index")));
                if let Some(did) = self.typeck.type_dependent_def_id(e.hir_id) {
                    o.push(("callee", s(self.path(did))));
                }
                o.push(("base_ty", s(self.ty_adj(x))));
                o.push(("e", self.expr(x)));
                o.push(("i", self.expr(i)));
            }
            hir::ExprKind::Path(ref qp) => {
                o.push(("k", s("Path")));
                self.qpath(qp, e.hir_id, &mut o);
            }
            hir::ExprKind::AddrOf(_, m, x) => {
                o.push(("k", s("AddrOf")));
                o.push(("mut", J::B(matches!(m, hir::Mutability::Mut))));
                o.push(("e", self.expr(x)));
            }
            hir::ExprKind::Break(_, x) => {
                o.push(("k", s("Break")));
                o.push(("e", opt(x.map(|x| self.expr(x)))));
            }
            hir::ExprKind::Continue(_) => o.push(("k", s("Continue"))),
            hir::ExprKind::Ret(x) => {
                o.push(("k", s("Ret")));
                o.push(("e", opt(x.map(|x| self.expr(x)))));
            }
            hir::ExprKind::Struct(qp, fields, tail) => {
                o.push(("k", s("Struct")));
                let mut r = Vec::new();
                self.qpath(qp, e.hir_id, &mut r);
                o.push(("path", J::O(r)));
                let fs = fields
                    .iter()
                    .map(|f| J::O(vec![("name", s(f.ident.as_str())), ("e", self.expr(f.expr))]))
                    .collect();
                o.push(("fields", J::A(fs)));
                if let hir::StructTailExpr::Base(b) = tail {
                    o.push(("base", self.expr(b)));
                }
            }
            hir::ExprKind::Repeat(x, _) => {
                o.push(("k", s("Repeat")));
                o.push(("e", self.expr(x)));
            }
            hir::ExprKind::Become(_)
            | hir::ExprKind::InlineAsm(_)
            | hir::ExprKind::OffsetOf(..)
            | hir::ExprKind::Yield(..)
            | hir::ExprKind::UnsafeBinderCast(..)
            | hir::ExprKind::Err(_) => o.push(("k", s("Unsupported"))),
        }
        o.push(("ty", s(self.ty_of(e))));
        // adjustments (auto-deref / auto-ref / overloaded deref) matter for RefCell guards
        let adjs = self.typeck.expr_adjustments(e);
        if !adjs.is_empty() {
            let v: Vec<J> = adjs
                .iter()
                .map(|a| {
                    s(with_no_trimmed_paths!(format!("{:?}=>{}", a.kind, a.target)))
                })
                .collect();
            o.push(("adj", J::A(v)));
        }
        self.span_fields(e.span, &mut o);
        J::O(o)
    }

    fn block_as_expr(&mut self, b: &'tcx hir::Block<'tcx>, e: &'tcx hir::Expr<'tcx>) -> J {
        let j = self.block(b);
        if let J::O(mut o) = j {
            o.push(("ty", s(self.ty_of(e))));
            J::O(o)
        } else {
            j
        }
    }
}

// ---------------------------------------------------------------- items

fn item_span(tcx: TyCtxt<'_>, sp: Span, out: &mut Vec<(&'static str, J)>) {
    let sm = tcx.sess.source_map();
    let call = sp.source_callsite();
    let lo = sm.lookup_char_pos(call.lo());
    let hi = sm.lookup_char_pos(call.hi());
    let file = match &lo.file.name {
        rustc_span::FileName::Real(r) => match r.local_path() {
            Some(p) => p.to_string_lossy().to_string(),
            None => format!("{:?}", lo.file.name),
        },
        other => format!("{:?}", other),
    };
    out.push(("file", s(file)));
    out.push(("line", J::N(lo.line as i64)));
    out.push(("eline", J::N(hi.line as i64)));
    if sp.from_expansion() {
        let mut macs = Vec::new();
        for d in sp.macro_backtrace() {
            if let ExpnKind::Macro(_, name) = d.kind {
                macs.push(s(name.as_str()));
            }
        }
        out.push(("mac", J::A(macs)));
    }
}

fn predicates(tcx: TyCtxt<'_>, did: DefId) -> J {
    let preds = tcx.predicates_of(did).instantiate_identity(tcx);
    let v: Vec<J> = preds
        .predicates
        .iter()
        .map(|p| s(with_no_trimmed_paths!(format!("{:?}", p))))
        .collect();
    J::A(v)
}

fn body_owner<'tcx>(tcx: TyCtxt<'tcx>, owner: LocalDefId) -> J {
    let did = owner.to_def_id();
    let kind = tcx.def_kind(did);
    let mut o: Vec<(&'static str, J)> = Vec::new();
    o.push(("path", s(with_no_trimmed_paths!(tcx.def_path_str(did)))));
    o.push(("kind", s(format!("{:?}", kind))));
    item_span(tcx, tcx.def_span(did), &mut o);
    if matches!(kind, DefKind::Fn | DefKind::AssocFn) {
        o.push(("vis", s(format!("{:?}", tcx.visibility(did)))));
        let sig = tcx.fn_sig(did).instantiate_identity().skip_normalization().skip_binder();
        let ins: Vec<J> = sig
            .inputs()
            .iter()
            .map(|t| s(with_no_trimmed_paths!(format!("{}", t))))
            .collect();
        o.push(("inputs", J::A(ins)));
        o.push(("output", s(with_no_trimmed_paths!(format!("{}", sig.output())))));
        o.push(("preds", predicates(tcx, did)));
        let gens = tcx.generics_of(did);
        let gp: Vec<J> = gens.own_params.iter().map(|p| s(p.name.as_str())).collect();
        o.push(("generics", J::A(gp)));
    }
    if let DefKind::AssocFn = kind {
        if let Some(imp) = tcx.impl_of_assoc(did) {
            o.push(("impl", s(with_no_trimmed_paths!(tcx.def_path_str(imp)))));
            let self_ty = tcx.type_of(imp).instantiate_identity().skip_normalization();
            o.push(("self_ty", s(with_no_trimmed_paths!(format!("{:?}", self_ty)))));
            if let Some(tr) = tcx.impl_opt_trait_ref(imp) {
                let tr = tr.instantiate_identity().skip_normalization();
                o.push(("impl_trait", s(with_no_trimmed_paths!(tcx.def_path_str(tr.def_id)))));
                o.push(("impl_trait_ref", s(with_no_trimmed_paths!(format!("{:?}", tr)))));
            }
            o.push(("impl_preds", predicates(tcx, imp)));
            let mut sp = Vec::new();
            item_span(tcx, tcx.def_span(imp), &mut sp);
            o.push(("impl_span", J::O(sp)));
        }
        if let Some(tr) = tcx.trait_of_assoc(did) {
            o.push(("trait", s(with_no_trimmed_paths!(tcx.def_path_str(tr)))));
        }
        if let Some(ai) = tcx.opt_associated_item(did) {
            o.push(("assoc_name", s(ai.name().as_str())));
        }
    }
    let body = tcx.hir_body_owned_by(owner);
    let mut v = Ser { tcx, typeck: tcx.typeck(owner), nodes: 0 };
    let params: Vec<J> = body.params.iter().map(|p| v.pat(p.pat)).collect();
    o.push(("params", J::A(params)));
    o.push(("body", v.expr(body.value)));
    o.push(("nodes", J::N(v.nodes as i64)));
    J::O(o)
}

fn adts<'tcx>(tcx: TyCtxt<'tcx>) -> (J, J, J) {
    let mut adts = Vec::new();
    let mut impls = Vec::new();
    let mut traits = Vec::new();
    for ld in tcx.hir_crate_items(()).definitions() {
        let did = ld.to_def_id();
        match tcx.def_kind(did) {
            DefKind::Struct | DefKind::Enum => {
                let adt = tcx.adt_def(did);
                let mut o: Vec<(&'static str, J)> = Vec::new();
                o.push(("path", s(with_no_trimmed_paths!(tcx.def_path_str(did)))));
                o.push(("kind", s(format!("{:?}", tcx.def_kind(did)))));
                o.push(("vis", s(format!("{:?}", tcx.visibility(did)))));
                item_span(tcx, tcx.def_span(did), &mut o);
                let mut vs = Vec::new();
                for var in adt.variants() {
                    let fs: Vec<J> = var
                        .fields
                        .iter()
                        .map(|f| {
                            J::O(vec![
                                ("name", s(f.name.as_str())),
                                (
                                    "ty",
                                    s(with_no_trimmed_paths!(format!(
                                        "{}",
                                        tcx.type_of(f.did).instantiate_identity().skip_normalization()
                                    ))),
                                ),
                                ("vis", s(format!("{:?}", f.vis))),
                            ])
                        })
                        .collect();
                    vs.push(J::O(vec![("name", s(var.name.as_str())), ("fields", J::A(fs))]));
                }
                o.push(("variants", J::A(vs)));
                o.push(("preds", predicates(tcx, did)));
                adts.push(J::O(o));
            }
            DefKind::Impl { of_trait } => {
                let mut o: Vec<(&'static str, J)> = Vec::new();
                o.push(("path", s(with_no_trimmed_paths!(tcx.def_path_str(did)))));
                o.push(("of_trait", J::B(of_trait)));
                let self_ty = tcx.type_of(did).instantiate_identity().skip_normalization();
                o.push(("self_ty", s(with_no_trimmed_paths!(format!("{:?}", self_ty)))));
                if let Some(tr) = tcx.impl_opt_trait_ref(did) {
                    let tr = tr.instantiate_identity().skip_normalization();
                    o.push(("trait", s(with_no_trimmed_paths!(tcx.def_path_str(tr.def_id)))));
                    o.push(("trait_ref", s(with_no_trimmed_paths!(format!("{:?}", tr)))));
                }
                let items: Vec<J> = tcx
                    .associated_items(did)
                    .in_definition_order()
                    .map(|ai| {
                        J::O(vec![
                            ("name", s(ai.name().as_str())),
                            ("path", s(with_no_trimmed_paths!(tcx.def_path_str(ai.def_id)))),
                            ("kind", s(format!("{:?}", tcx.def_kind(ai.def_id)))),
                        ])
                    })
                    .collect();
                o.push(("items", J::A(items)));
                o.push(("preds", predicates(tcx, did)));
                item_span(tcx, tcx.def_span(did), &mut o);
                impls.push(J::O(o));
            }
            DefKind::Trait => {
                let mut o: Vec<(&'static str, J)> = Vec::new();
                o.push(("path", s(with_no_trimmed_paths!(tcx.def_path_str(did)))));
                let items: Vec<J> = tcx
                    .associated_items(did)
                    .in_definition_order()
                    .map(|ai| {
                        J::O(vec![
                            ("name", s(ai.name().as_str())),
                            ("path", s(with_no_trimmed_paths!(tcx.def_path_str(ai.def_id)))),
                            ("has_default", J::B(ai.defaultness(tcx).has_value())),
                        ])
                    })
                    .collect();
                o.push(("items", J::A(items)));
                item_span(tcx, tcx.def_span(did), &mut o);
                traits.push(J::O(o));
            }
            _ => {}
        }
    }
    (J::A(adts), J::A(impls), J::A(traits))
}

// ---------------------------------------------------------------- driver

struct Cb;

impl rustc_driver::Callbacks for Cb {
    fn after_analysis<'tcx>(
        &mut self,
        _c: &rustc_interface::interface::Compiler,
        tcx: TyCtxt<'tcx>,
    ) -> Compilation {
        let name = tcx.crate_name(LOCAL_CRATE).as_str().to_string();
        let wanted = std::env::var("RTA_FACTS_CRATES").unwrap_or_default();
        if !wanted.split(',').any(|w| w == name) {
            return Compilation::Continue;
        }
        let out_path = match std::env::var("RTA_FACTS_OUT") {
            Ok(p) => p,
            Err(_) => return Compilation::Continue,
        };
        let mut bodies = Vec::new();
        for owner in tcx.hir_body_owners() {
            match tcx.def_kind(owner) {
                DefKind::Closure => continue, // serialised inside their parent
                DefKind::Fn | DefKind::AssocFn | DefKind::Const { .. } | DefKind::AssocConst { .. } | DefKind::Static { .. } => {}
                _ => continue,
            }
            bodies.push(body_owner(tcx, owner));
        }
        let (adts, impls, traits) = adts(tcx);
        let dbg = tcx.sess.opts.debug_assertions;
        let top = J::O(vec![
            ("crate", s(name)),
            ("debug_assertions", J::B(dbg)),
            ("overflow_checks", J::B(tcx.sess.overflow_checks())),
            ("test_harness", J::B(tcx.sess.opts.test)),
            ("nbodies", J::N(bodies.len() as i64)),
            ("bodies", J::A(bodies)),
            ("adts", adts),
            ("impls", impls),
            ("traits", traits),
        ]);
        let mut outs = String::new();
        top.write(&mut outs);
        // one write per process
        std::fs::write(&out_path, outs).expect("cannot write facts");
        Compilation::Continue
    }
}

fn main() {
    let mut args: Vec<String> = std::env::args().collect();
    // RUSTC_WORKSPACE_WRAPPER passes the real rustc path as argv[1]
    if args.len() > 1 && (args[1].ends_with("rustc") || args[1].contains("/rustc")) {
        args.remove(1);
    }
    rustc_driver::run_compiler(&args, &mut Cb);
}
