//! Compile-fail witnesses (type-level clauses of C13 / C14).
//!
//! Each witness names the crate as an external user would and is paired with a compiling twin that
//! differs only by the offending type, so that a witness which fails for the wrong reason (a wrong
//! path, a missing import) does not pass: the twin would fail too.  Twins are `no_run`: nothing of the
//! library is executed.  Run with `cargo +nightly test --doc` (stable ignores the error code).

/// C13: `arrival::ExtrapolatingCurve` shares its cache through `Rc<RefCell<Curve>>`; the only way to a
/// `BorrowMutError` besides re-entrancy would be concurrent use, which must not type-check.
///
/// ```compile_fail,E0277
/// fn assert_send<T: Send>() {}
/// assert_send::<response_time_analysis::arrival::ExtrapolatingCurve>();
/// ```
///
/// ```no_run
/// fn assert_send<T: Send>() {}
/// assert_send::<response_time_analysis::arrival::Curve>();
/// ```
pub struct ArrivalExtrapolatingCurveIsNotSend;

/// ```compile_fail,E0277
/// fn assert_sync<T: Sync>() {}
/// assert_sync::<response_time_analysis::arrival::ExtrapolatingCurve>();
/// ```
///
/// ```no_run
/// fn assert_sync<T: Sync>() {}
/// assert_sync::<response_time_analysis::arrival::Curve>();
/// ```
pub struct ArrivalExtrapolatingCurveIsNotSync;

/// C14: the same for the caching cost model `wcet::ExtrapolatingCurve`.
///
/// ```compile_fail,E0277
/// fn assert_send<T: Send>() {}
/// assert_send::<response_time_analysis::wcet::ExtrapolatingCurve>();
/// ```
///
/// ```no_run
/// fn assert_send<T: Send>() {}
/// assert_send::<response_time_analysis::wcet::Curve>();
/// ```
pub struct WcetExtrapolatingCurveIsNotSend;

/// ```compile_fail,E0277
/// fn assert_sync<T: Sync>() {}
/// assert_sync::<response_time_analysis::wcet::ExtrapolatingCurve>();
/// ```
///
/// ```no_run
/// fn assert_sync<T: Sync>() {}
/// assert_sync::<response_time_analysis::wcet::Curve>();
/// ```
pub struct WcetExtrapolatingCurveIsNotSync;

/// The cache of an `ExtrapolatingCurve` cannot be reached from outside the crate: the field is private, so
/// only the crate's own (analysed) code can borrow it.
///
/// ```compile_fail,E0616
/// let c = response_time_analysis::arrival::ExtrapolatingCurve::new(
///     response_time_analysis::arrival::Curve::new(vec![response_time_analysis::time::Duration::from(1)]));
/// let _ = &c.prefix;
/// ```
///
/// ```no_run
/// let c = response_time_analysis::arrival::ExtrapolatingCurve::new(
///     response_time_analysis::arrival::Curve::new(vec![response_time_analysis::time::Duration::from(1)]));
/// let _ = &c;
/// ```
pub struct CacheFieldIsPrivate;
