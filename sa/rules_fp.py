"""C08: dataflow clauses over the fixed-point kernel (fixed_point.rs, SupplyBound::service_time).

The loops are summarised by *one symbolic iteration*: the loop-carried variable is a root H ("value at the
loop head"), every return / assignment / break inside the loop is recorded with its path condition."""

from . import term as T
from .evalr import Evaluator
from .facts import loc, walk
from .report import AnchorMissing

SWO = 'fixed_point::search_with_offset'
SEARCH = 'fixed_point::search'
MAXRT = 'fixed_point::max_response_time'
BRUTE = 'fixed_point::brute_force_search_with_offset'
ST = 'supply::SupplyBound::service_time'
PS = 'supply::SupplyBound::provided_service'
DLE = 'fixed_point::SearchFailure::DivergenceLimitExceeded'


def p(i):
    return T.param(i)


def loop_summary(ev, body, src_kinds):
    loops = [e for e in ev.events if e['kind'] == 'loop' and e['depth'] == 0 and not e['loops']]
    loops = [l for l in loops if l.get('src') in src_kinds]
    if len(loops) != 1:
        raise AnchorMissing(f'{body.path}: expected exactly one {"/".join(src_kinds)} loop, found {len(loops)}')
    l = loops[0]
    nid = l['node'].get('_nid')
    inner = [e for e in ev.events if e['depth'] == 0 and e['loops'] == (nid,)]
    return l, nid, inner


def follow_delegation(crate, body, hops=3):
    """a function that has no loop of its own and merely hands its parameters to a private function of the crate (the loop
    extracted into a helper): -> (the helper's body, the argument terms in the caller's parameters); else (body, None)"""
    args = None
    while hops > 0 and body is not None and not any(n.get('k') == 'Loop' for n in body.walk()):
        ev = Evaluator(crate)
        top = T.unroot(ev.eval_entry(body, args))
        if not (isinstance(top, tuple) and top and top[0] == 'call' and isinstance(top[1], str)):
            break
        nb = crate.body(top[1])
        if nb is None or not str(nb.raw.get('vis', '')).startswith('Restricted') or nb.raw.get('impl_trait'):
            break
        body, args = nb, list(top[2])
        hops -= 1
    return body, args


def check_search_with_offset(rep, crate):
    body = crate.body(SWO)
    fn = SWO
    if body is None:
        rep.bad('ANCHOR', 'ANCHOR:search_with_offset', SWO, 'function not found', fn=fn)
        return
    body, dargs = follow_delegation(crate, body)
    where = loc(body.raw)
    ev = Evaluator(crate)
    top = ev.eval_entry(body, dargs)
    try:
        l, nid, inner = loop_summary(ev, body, ('While', 'Loop'))
    except AnchorMissing as ex:
        rep.bad('ANCHOR', 'ANCHOR:search_with_offset:loop', where, ex.what, fn=fn, why='fail closed')
        return
    assigns = [e for e in inner if e['kind'] == 'assign' and not e['fields']]
    locals_ = {e['local'] for e in assigns}
    if len(locals_) != 1:
        rep.bad('ANCHOR', 'ANCHOR:search_with_offset:var', where, f'{len(locals_)} loop-carried variables', 'one iteration variable', fn=fn)
        return
    lid = locals_.pop()
    H = T.root(('havoc', lid, nid))
    supply, offset, limit, w = p(0), p(1), p(2), p(3)
    B = T.sub(T.root(T.call(ST, supply, T.call('apply', w, T.unroot(H)))), offset)

    # 1 -- first assumed value is the constant 1
    init = l['env_before'].get(lid)
    if init == T.const(1):
        rep.ok('FP-INIT', 'FP-INIT:search_with_offset', where, 'iteration starts at the constant 1', '1', fn=fn)
    else:
        rep.bad('FP-INIT', 'FP-INIT:search_with_offset', where, f'iteration starts at {T.show(init)}', '1', fn=fn,
                why='starting at 0 returns 0 for every workload with w(0)=0; starting higher can overshoot the least solution')

    # exits of the loop: a `break` leaves with the function's fall-through value, a `return` with its own value.
    # (`while c {..}; Err(..)` and `loop { if !c { return Err(..) } .. }` have the same exit set.)
    exits = []
    for e in inner:
        if e['kind'] == 'ret':
            exits.append((frozenset(e['pc']), e['value']))
        elif e['kind'] == 'break':
            # `break v` yields v as the value of the loop (which is then the function's value); a bare break leaves
            # with whatever follows the loop
            tu = T.unroot(top)
            own = isinstance(tu, tuple) and tu and tu[0] == 'loopval' and tu[1] == nid
            exits.append((frozenset(e['pc']), e['value'] if (e.get('value') is not None and own) else top))
    want_err = ('err', T.struct(DLE, {'offset': offset, 'limit': limit}))
    in_range = T.cmp('Le', H, limit)
    conv = T.cmp('Le', B, H)

    def show_exits(xs):
        return '; '.join(f"leave with {T.show(v)[:90]} when {' && '.join(sorted(T.show(c) for c in pc)) or 'always'}" for pc, v in xs)

    # 2 -- the iteration is abandoned exactly when assumed > limit (inclusive bound)
    errs = [x for x in exits if isinstance(x[1], tuple) and x[1] and x[1][0] == 'err']
    if len(errs) == 1 and errs[0][0] == frozenset([T.tnot(in_range)]):
        rep.ok('FP-GUARD', 'FP-GUARD:search_with_offset', where, 'the iteration is abandoned exactly when assumed > limit (it continues while assumed <= limit, inclusive)', fn=fn)
    else:
        rep.bad('FP-GUARD', 'FP-GUARD:search_with_offset', where, show_exits(errs) or 'no divergence exit',
                f'abandoned exactly when {T.show(T.tnot(in_range))}', fn=fn,
                why='a fixed point equal to the limit must still be found; a laxer guard lets Ok exceed the limit')

    # 3 -- Ok only on convergence (bound <= assumed), payload is the bound
    oks = [x for x in exits if isinstance(x[1], tuple) and x[1] and x[1][0] == 'ok']
    exp = f'leave with ok({T.show(B)}) when {T.show(in_range)} && {T.show(conv)}'
    if len(oks) == 1 and oks[0][1] == ('ok', B) and oks[0][0] == frozenset([in_range, conv]):
        rep.ok('FP-OK', 'FP-OK:search_with_offset', where, show_exits(oks), exp, fn=fn)
    else:
        rep.bad('FP-OK', 'FP-OK:search_with_offset', where, show_exits(oks) or 'no Ok exit inside the loop', exp, fn=fn,
                why='the payload must be service_time(workload(assumed)) - offset (not the assumed value), returned exactly on convergence')

    # 4 -- strict progress: the only assignment is assumed := bound on the complementary branch
    ok4 = len(assigns) == 1 and assigns[0]['value'] == B and frozenset(assigns[0]['pc']) == frozenset([in_range, T.tnot(conv)])
    fact = '; '.join(f"{a['name']} := {T.show(a['value'])} when {' && '.join(T.show(x) for x in a['pc'])}" for a in assigns)
    if ok4:
        rep.ok('FP-STEP', 'FP-STEP:search_with_offset', where, fact, fn=fn)
    else:
        rep.bad('FP-STEP', 'FP-STEP:search_with_offset', where, fact, f'assumed := {T.show(B)} exactly when the bound exceeds the assumed value', fn=fn,
                why='any other update breaks leastness or termination of the Kleene iteration')

    # 5 -- non-interference: the limit never reaches an Ok payload
    leaks = [x for x in oks if T.mentions(x[1], limit)]
    oks_top = [x for x in T.subterms(top) if isinstance(x, tuple) and x and x[0] == 'ok' and T.mentions(x, limit)]
    if leaks or oks_top:
        rep.bad('LIM-NI', 'LIM-NI:search_with_offset', where, 'divergence_limit reaches an Ok payload', 'limit only in the loop guard and the Err payload', fn=fn,
                why='an Ok result would change when the limit is raised')
    else:
        rep.ok('LIM-NI', 'LIM-NI:search_with_offset', where, 'divergence_limit reaches only the loop guard and the Err payload', fn=fn)

    # 6 -- the divergence exit carries Err(DivergenceLimitExceeded{offset, limit}) built from the parameters, unmodified
    if len(errs) == 1 and errs[0][1] == want_err:
        rep.ok('FP-ERR', 'FP-ERR:search_with_offset', where, f'the divergence exit yields {T.show(want_err)}', fn=fn)
    else:
        rep.bad('FP-ERR', 'FP-ERR:search_with_offset', where, show_exits(errs) or f'falls through to {T.show(top)}', T.show(want_err), fn=fn)


def check_search(rep, crate, cfgname):
    body = crate.body(SEARCH)
    if body is None:
        rep.bad('ANCHOR', f'ANCHOR:search:{cfgname}', SEARCH, 'function not found', fn=SEARCH)
        return
    ev = Evaluator(crate)
    top = ev.eval_entry(body)
    want = T.root(T.call(SWO, p(0), T.const(0), p(1), p(2)))
    key = f'FP-WRAP:search:{cfgname}'
    if T.as_lin(top) == want:
        rep.ok('FP-WRAP', key, loc(body.raw), f'[{cfgname}] search returns {T.show(top)} unchanged', fn=SEARCH)
    else:
        rep.bad('FP-WRAP', key, loc(body.raw), f'[{cfgname}] search returns {T.show(top)}', T.show(want), fn=SEARCH,
                why='search must be search_with_offset at offset 0; debug-only code must not alter the result')


def check_err_origin(rep, crate, cfgname):
    """DivergenceLimitExceeded is constructed only inside the fixed-point kernel"""
    allowed = {SWO, BRUTE}
    # private helpers of the kernel module that are only reached from the kernel (e.g. the iteration extracted into its
    # own function) belong to the kernel
    callers = {}
    for b in crate.body_list:
        for node in b.walk():
            if node.get('k') in ('Call', 'MethodCall') and node.get('callee'):
                callers.setdefault(node['callee'], set()).add(b.path)
    grew = True
    while grew:
        grew = False
        for b in crate.body_list:
            if b.path in allowed or not b.path.startswith('fixed_point::') or not str(b.raw.get('vis', '')).startswith('Restricted'):
                continue
            cs = callers.get(b.path, set())
            if cs and cs <= allowed:
                allowed.add(b.path)
                grew = True
    n = 0
    for b in crate.body_list:
        for node in b.walk():
            if node.get('k') == 'Struct' and node.get('path', {}).get('def') == DLE:
                n += 1
                if b.path not in allowed:
                    rep.bad('ERR-ORIGIN', f'ERR-ORIGIN:{b.path}', loc(node), 'DivergenceLimitExceeded constructed outside fixed_point::search_with_offset', fn=b.path)
    for b in crate.body_list:
        for node in b.walk():
            if node.get('k') == 'Path' and (node.get('def') or '').endswith('SearchFailure::AssumptionViolated') and not (b.mac or []):
                rep.bad('ERR-ORIGIN', f'ERR-ORIGIN:{b.path}:assumption', loc(node), 'AssumptionViolated constructed', 'never constructed by the library', fn=b.path)
    rep.ok('ERR-ORIGIN', f'ERR-ORIGIN:{cfgname}', 'src/fixed_point.rs', f'[{cfgname}] DivergenceLimitExceeded is constructed at {n} site(s), all inside the fixed-point kernel')
    return n


def _selection_table(kind, lam2, try_order=()):
    """which item a pairwise combinator keeps, as a table over (left is Ok, right is Ok) -> value kept.

    Iterator::max_by(cmp) keeps the left (accumulated) item iff cmp says Greater; Iterator::reduce(f) keeps f(left, right).
    Both are written over the same vocabulary: ok(payload) / err(error) of the left ($0) and right ($1) item."""
    lam2 = T.alpha(lam2)
    body = lam2[2]
    a, b = T.bv(0), T.bv(1)
    okc = {0: ('matches', a, 'Ok'), 1: ('matches', b, 'Ok')}
    pay = {0: T.root(('case', a, 'Ok', 0)), 1: T.root(('case', b, 'Ok', 0))}
    err = {0: ('case', a, 'Err', 0), 1: ('case', b, 'Err', 0)}
    G = ('unitctor', 'std::cmp::Ordering::Greater')
    L = ('unitctor', 'std::cmp::Ordering::Less')
    E = ('unitctor', 'std::cmp::Ordering::Equal')

    def item(i, facts):
        return ('ok', pay[i]) if okc[i] in facts else ('err', err[i])

    def leaf(t, facts):
        t = T.unroot(t)
        if kind == 'max_by':
            if t == G:
                return item(0, facts)
            if t in (L, E):
                return item(1, facts)
            if isinstance(t, tuple) and t and t[0] == 'call' and t[1] == 'std::cmp::Ord::cmp' and len(t[2]) == 2:
                x, y = T.as_lin(t[2][0]), T.as_lin(t[2][1])
                c = T.cmp('Gt', x, y)
                l, r = item(0, facts), item(1, facts)
                if l[0] == 'ok' and r[0] == 'ok':
                    return ('ok', T.ite(c, l[1], r[1]))
                return ('ite', c, l, r)
            return ('?', t)
        if t == a:
            return item(0, facts)
        if t == b:
            return item(1, facts)
        return t

    def walk(t, facts):
        u = T.unroot(t)
        if isinstance(u, tuple) and u and u[0] == 'ite':
            c = T.simplify_under(u[1], facts)
            if c == T.TRUE:
                return walk(u[2], facts)
            if c == T.FALSE:
                return walk(u[3], facts)
            x, y = walk(u[2], facts + [c]), walk(u[3], facts + [T.tnot(c)])
            if x[0] == 'ok' and y[0] == 'ok':
                return ('ok', T.ite(c, x[1], y[1]))
            return ('ite', c, x, y)
        return leaf(t, facts)

    def with_try(facts):
        """`x?` inside the combining closure: the closure returns Err(e) at the first `?` (in evaluation order) applied to an
        Err item, otherwise `x?` is the Ok payload"""
        tries = {y[1] for y in T.subterms(body) if isinstance(y, tuple) and len(y) == 2 and y[0] == 'try' and y[1] in (a, b)}
        if not tries:
            return None
        order = [x for x in try_order if x in tries] + sorted(x for x in tries if x not in try_order)
        for x in order:
            i = 0 if x == a else 1
            if okc[i] not in facts:
                return ('err', err[i])
        return walk(T.substitute(body, {('try', a): pay[0], ('try', b): pay[1]}), facts)

    table = {}
    for la in (True, False):
        for rb in (True, False):
            facts = [okc[0] if la else T.tnot(okc[0]), okc[1] if rb else T.tnot(okc[1])]
            v = with_try(facts) if kind in ('reduce', 'fold') else None
            table[(la, rb)] = T.canon(v if v is not None else walk(body, facts), minmax=True)
    want = {(True, True): T.canon(('ok', T.tmax(pay[0], pay[1])), minmax=True),
            (True, False): T.canon(('err', err[1])), (False, True): T.canon(('err', err[0])), (False, False): T.canon(('err', err[0]))}
    return table, want


def check_max_response_time(rep, crate):
    body = crate.body(MAXRT)
    if body is None:
        rep.bad('ANCHOR', 'ANCHOR:max_response_time', MAXRT, 'function not found', fn=MAXRT)
        return
    where = loc(body.raw)
    ev = Evaluator(crate)
    top = T.unroot(ev.eval_entry(body))
    ok_shape = isinstance(top, tuple) and top[0] == 'optor' and isinstance(T.unroot(top[1]), tuple) and T.unroot(top[1])[0] in ('max_by', 'reduce')
    # fold(init, f) applies f also to (init, first item); with init = Ok(0) and the selection table below (Ok,Ok keeps the
    # maximum -- payloads are >= 0 --, Ok,Err keeps the right error) f(Ok(0), x) = x, i.e. reduce(f).unwrap_or(Ok(0))
    is_fold = isinstance(top, tuple) and top[0] == 'fold' and len(top) == 4 and isinstance(top[3], tuple) and top[3][0] == 'lam2'
    if not ok_shape and not is_fold:
        rep.bad('FP-MAX', 'FP-MAX:shape', where, f'max_response_time computes {T.show(top)[:200]}',
                'a pairwise selection (max_by / reduce / fold from Ok(0)) over all items, Ok(0) if there are none', fn=MAXRT)
        return
    mb = T.unroot(top[1]) if ok_shape else ('fold', top[1], top[3])
    dflt = top[2]
    try_order = [T.unroot(t[2]) for t in ev.trace if t[0] == 'try']
    if dflt == ('ok', T.const(0)):
        rep.ok('FP-MAX', 'FP-MAX:empty', where, 'an empty sequence yields Ok(0)', fn=MAXRT)
    else:
        rep.bad('FP-MAX', 'FP-MAX:empty', where, f'an empty sequence yields {T.show(dflt)}', 'Ok(0)', fn=MAXRT)
    if mb[1] == ('elems', p(0)):
        rep.ok('FP-MAX', 'FP-MAX:all', where, 'the selection sees every item of the sequence (no adaptor in between)', fn=MAXRT)
    else:
        rep.bad('FP-MAX', 'FP-MAX:all', where, f'maximum is taken over {T.show(mb[1])}', 'the whole parameter sequence', fn=MAXRT)
    table, want = _selection_table(mb[0], mb[2], try_order)
    names = {(True, True): 'Ok,Ok', (True, False): 'Ok,Err', (False, True): 'Err,Ok', (False, False): 'Err,Err'}
    wrong = [k for k in want if table[k] != want[k]]
    if not wrong:
        rep.ok('FP-MAX', 'FP-MAX:cmp', where,
               f'{mb[0]}: of an accumulated (left) and a next (right) item the one kept is -- Err,_: the left error; Ok,Err: the right '
               'error; Ok,Ok: Ok(max of the payloads): the first error wins, otherwise the maximum', fn=MAXRT)
    else:
        rep.bad('FP-MAX', 'FP-MAX:cmp', where,
                '; '.join(f'({names[k]}) keeps {T.show(table[k])[:120]}' for k in wrong),
                '; '.join(f'({names[k]}) keeps {T.show(want[k])}' for k in wrong), fn=MAXRT,
                why='this decides which error / which value is reported')
    # the unwraps are dominated by an Ok test
    for e in ev.events:
        if e['kind'] == 'unwrap':
            arg = T.unroot(e['arg'])
            if ('matches', arg, 'Ok') in e['pc']:
                rep.ok('FP-MAX', f'FP-MAX:unwrap:{T.show(arg)}', loc(e['node']), f'unwrap of {T.show(arg)} is dominated by an Ok test', fn=MAXRT)
            else:
                rep.bad('FP-MAX', f'FP-MAX:unwrap:{T.show(arg)}', loc(e['node']), f'unwrap of {T.show(arg)} is not dominated by an Ok test', fn=MAXRT)


def check_brute_sibling(rep, crate):
    body = crate.body(BRUTE)
    if body is None:
        rep.bad('ANCHOR', 'ANCHOR:brute_force', BRUTE, 'debug-only sibling not found in the debug configuration', fn=BRUTE)
        return
    where = loc(body.raw)
    ev = Evaluator(crate)
    top = ev.eval_entry(body)
    try:
        l, nid, inner = loop_summary(ev, body, ('ForLoop',))
    except AnchorMissing as ex:
        rep.bad('ANCHOR', 'ANCHOR:brute_force:loop', where, ex.what, fn=BRUTE)
        return
    want_range = ('range', T.const(1), T.add(p(2), T.const(1)))
    if T.unroot(l['iter']) == want_range:
        rep.ok('FP-SIB', 'FP-SIB:range', where, 'linear scan covers 1..=limit (same inclusivity as the iterative search)', fn=BRUTE)
    else:
        rep.bad('FP-SIB', 'FP-SIB:range', where, f'linear scan covers {T.show(l["iter"])}', T.show(want_range), fn=BRUTE)
    x = T.root(('item', nid))
    rets = [e for e in inner if e['kind'] == 'ret']
    wx = T.root(T.call('apply', p(3), T.unroot(x)))
    zero = any(r['value'] == ('ok', T.const(0)) and T.eq0(wx) in r['pc'] for r in rets)
    lhs = T.root(T.call(PS, p(0), T.add(x, p(1))))
    hit = any(r['value'] == ('ok', x) and T.eq0(T.sub(wx, lhs)) in r['pc'] for r in rets)
    if zero and hit and len(rets) == 2:
        rep.ok('FP-SIB', 'FP-SIB:returns', where, 'Ok(0) on zero demand, Ok(r) at the first r with provided_service(offset + r) == workload(r)', fn=BRUTE)
    else:
        fact = '; '.join(f"return {T.show(r['value'])} when {' && '.join(T.show(c) for c in r['pc'])}" for r in rets)
        rep.bad('FP-SIB', 'FP-SIB:returns', where, fact, 'Ok(0) iff w(r) == 0; Ok(r) iff sbf(offset + r) == w(r)', fn=BRUTE)
    want = ('err', T.struct(DLE, {'offset': p(1), 'limit': p(2)}))
    if top == want:
        rep.ok('FP-SIB', 'FP-SIB:err', where, 'same Err payload as the iterative search', fn=BRUTE)
    else:
        rep.bad('FP-SIB', 'FP-SIB:err', where, f'falls through to {T.show(top)}', T.show(want), fn=BRUTE)
    # the cross-check in `search` compares the two siblings on the SAME arguments
    sb = crate.body(SEARCH)
    if sb is not None:
        ev2 = Evaluator(crate)
        ev2.eval_entry(sb)
        args = (p(0), T.const(0), p(1), p(2))
        a = T.root(T.call(BRUTE, *args))
        b = T.root(T.call(SWO, *args))
        want_c = T.tnot(T.eq0(T.sub(a, b)))
        pans = [e for e in ev2.events if e['kind'] == 'panic' and e['depth'] == 0]
        good = [e for e in pans if want_c in e['pc'] or T.tnot(T.eq0(T.sub(b, a))) in e['pc']]
        if len(pans) == 1 and good:
            rep.ok('FP-SIB', 'FP-SIB:call', loc(sb.raw), 'search asserts brute_force(supply, 0, limit, w) == search_with_offset(supply, 0, limit, w): same four arguments', fn=SEARCH)
        else:
            rep.bad('FP-SIB', 'FP-SIB:call', loc(sb.raw), 'debug cross-check of search fires when ' + ' | '.join(' && '.join(T.show(c) for c in e['pc'])[:200] for e in pans),
                    f'exactly one assertion, under {T.show(want_c)}', fn=SEARCH,
                    why='a cross-check on different arguments makes debug builds panic on well-formed input (or check nothing)')


def check_default_service_time(rep, crate):
    body = crate.body(ST)
    if body is None:
        rep.bad('ANCHOR', 'ANCHOR:service_time', ST, 'default method not found', fn=ST)
        return
    where = loc(body.raw)
    ev = Evaluator(crate)
    top = ev.eval_entry(body)
    try:
        l, nid, inner = loop_summary(ev, body, ('Loop', 'While'))
    except AnchorMissing as ex:
        rep.bad('ANCHOR', 'ANCHOR:service_time:loop', where, ex.what, fn=ST)
        return
    # a variable that only caches provided_service(t) for the next test (the `primed` form) is not an iteration variable
    assigns = [e for e in inner if e['kind'] == 'assign' and not e['fields'] and not e.get('derived')]
    if len({a['local'] for a in assigns}) != 1:
        rep.bad('ANCHOR', 'ANCHOR:service_time:var', where, 'cannot identify the iteration variable', fn=ST)
        return
    lid = assigns[0]['local']
    Ht = T.root(('havoc', lid, nid))
    demand = p(1)
    sup = T.root(T.call(PS, p(0), T.unroot(Ht)))
    init = l['env_before'].get(lid)
    if T.as_lin(init) == T.as_lin(demand):
        rep.ok('ST-INIT', 'ST-INIT:default', where, 'starts at t = demand (no supply can serve d units in fewer than d time units)', fn=ST)
    else:
        rep.bad('ST-INIT', 'ST-INIT:default', where, f'starts at t = {T.show(init)}', 't = demand', fn=ST,
                why='a larger start can overshoot the least t; a smaller one only costs iterations')
    rets = [e for e in inner if e['kind'] == 'ret']
    if not (isinstance(T.unroot(top), tuple) and T.unroot(top) and T.unroot(top)[0] == 'loopval'):
        # `while supply < demand {..}; t`: leaving the loop is returning the value that follows it
        rets += [dict(e, value=top) for e in inner if e['kind'] == 'break']
    if len(rets) == 1 and rets[0]['value'] == Ht and rets[0]['pc'] == (T.cmp('Ge', sup, demand),):
        rep.ok('ST-RET', 'ST-RET:default', where, 'returns t exactly when provided_service(t) >= demand', fn=ST)
    else:
        fact = '; '.join(f"return {T.show(r['value'])} when {' && '.join(T.show(c) for c in r['pc'])}" for r in rets)
        rep.bad('ST-RET', 'ST-RET:default', where, fact, f'return t when {T.show(T.cmp("Ge", sup, demand))}', fn=ST)
    want = T.add(Ht, T.sub(demand, sup))
    if len(assigns) == 1 and assigns[0]['value'] == want and assigns[0]['pc'] == (T.tnot(T.cmp('Ge', sup, demand)),):
        rep.ok('ST-STEP', 'ST-STEP:default', where, 'advances by the missing service demand - supply (never past the least t, since supply grows at most one per time unit)', fn=ST)
    else:
        fact = '; '.join(f"t := {T.show(a['value'])} when {' && '.join(T.show(c) for c in a['pc'])}" for a in assigns)
        rep.bad('ST-STEP', 'ST-STEP:default', where, fact, f't := {T.show(want)}', fn=ST,
                why='a larger jump can skip the least t with provided_service(t) >= demand')
