"""Enumeration and discharge of panic-capable sites (C20/SITE) from the evaluator's events.

A site is discharged when the path condition recorded at the site (enclosing branches, earlier early
returns, the left operand of &&, upstream filter/take_while stages, loop ranges, known lower bounds of closure
parameters) implies the site's safety condition, by linear reasoning over non-negative roots."""

from . import term as T
from .evalr import Evaluator
from .facts import loc


# ---------------------------------------------------------------- linear implication

def nonneg(l):
    """every root is a non-negative integer: a form with non-negative coefficients and constant is >= 0"""
    l = T.as_lin(l)
    return l[1] >= 0 and all(c >= 0 for _, c in l[2])


def upper_variants(l, fuel=3):
    """forms that are >= l: replace +min{..} by any element, -max{..} by any element, -pos(x) by -x, +rem(a,b) by b-1"""
    l = T.as_lin(l)
    out = [l]
    if fuel <= 0:
        return out
    for r, c in l[2]:
        if not isinstance(r, tuple):
            continue
        rest = T.sub(l, T.scale(T.root(r), c))
        alts = []
        if r[0] == 'min' and c > 0:
            alts = list(r[1])
        elif r[0] == 'max' and c < 0:
            alts = list(r[1])
        elif r[0] == 'pos' and c < 0:
            alts = [r[1]]
        elif r[0] == 'rem' and c > 0:
            alts = [T.sub(r[2], T.const(1))]
        elif r[0] == 'ind' and c > 0:
            alts = [T.const(1)]
        elif r[0] == 'ind' and c < 0:
            alts = [T.const(0)]
        for a in alts:
            out.extend(upper_variants(T.add(rest, T.scale(T.as_lin(a), c)), fuel - 1))
    return out


def lower_variants(l, fuel=3):
    """forms that are <= l"""
    return [T.neg(x) for x in upper_variants(T.neg(l), fuel)]


def facts_from_pc(pc):
    """le0-facts (forms known to be <= 0) derivable from a path condition"""
    facts = []
    for c in pc:
        _facts(c, facts)
    return facts


def _facts(c, out):
    if not isinstance(c, tuple) or not c:
        return
    if c[0] == 'le0':
        # every upper variant u >= f cannot be used; we need forms <= 0: lower variants of f are <= f <= 0
        for v in lower_variants(c[1]):
            out.append(v)
    elif c[0] == 'eq0':
        out.append(c[1])
        out.append(T.neg(c[1]))
    elif c[0] == 'and':
        for x in c[1]:
            _facts(x, out)
    elif c[0] == 'not' and isinstance(c[1], tuple) and c[1][0] == 'eq0':
        # x != 0 for a non-negative single root x  =>  x >= 1
        l = c[1][1]
        if nonneg(l):
            out.append(T.sub(T.const(1), l))
        elif nonneg(T.neg(l)):
            out.append(T.add(T.const(1), l))


def implies_nonneg(goal, pc, extra_facts=(), _depth=0, _split=0):
    """does the path condition imply goal >= 0 ?   goal >= 0 holds if goal + sum(k_i * f_i) is a non-negative
    form for some facts f_i <= 0 (k_i in {0,1,2}) -- then goal >= -sum(..) >= 0."""
    goal = T.as_lin(goal)
    # + min{a, b} (or - max{a, b}) in the goal: the goal holds iff it holds with each element in place of the min / max
    if _split <= 2:
        for r, c in goal[2]:
            if isinstance(r, tuple) and r and ((r[0] == 'min' and c > 0) or (r[0] == 'max' and c < 0)):
                rest = T.sub(goal, T.scale(T.root(r), c))
                rs = [implies_nonneg(T.add(rest, T.scale(T.as_lin(a), c)), pc, extra_facts, _depth, _split + 1) for a in r[1]]
                if all(x is not None for x in rs):
                    return 'each element of ' + T.show(r) + ': ' + '; '.join(rs)
                break
    goals = lower_variants(goal)      # proving any g <= goal non-negative suffices
    facts = facts_from_pc(pc) + list(extra_facts)
    if _depth == 0:
        # integer division by a constant c >= 2:  a / c <= a, and a / c <= a - 1 as soon as a >= 1
        divs = set()
        for t in [goal] + list(pc):
            for x in T.subterms(t):
                if isinstance(x, tuple) and x and x[0] == 'div' and T.is_const(T.as_lin(x[2])) and T.as_lin(x[2])[1] >= 2:
                    divs.add(x)
        for dv in divs:
            a = T.as_lin(dv[1])
            facts.append(T.sub(T.root(dv), a))
            if implies_nonneg(T.sub(a, T.const(1)), pc, (), 1):
                facts.append(T.add(T.sub(T.root(dv), a), T.const(1)))
    for g in goals:
        if nonneg(g):
            return 'non-negative form'
    for g in goals:
        for i, f in enumerate(facts):
            for k in (1, 2):
                if nonneg(T.add(g, T.scale(f, k))):
                    return f'{T.show(f)} <= 0'
    for g in goals:
        for i, f1 in enumerate(facts):
            for f2 in facts[i + 1:]:
                if nonneg(T.add(g, T.add(f1, f2))):
                    return f'{T.show(f1)} <= 0 and {T.show(f2)} <= 0'
    return None


# ---------------------------------------------------------------- site collection

CONTRACT_MODULES = ('time::',)


def is_contract_fn(crate, path):
    """the public conversion / arithmetic API of time.rs: its preconditions are obligations of each call site.
    (A crate-private helper that merely lives in time.rs is an ordinary private helper.)"""
    if not (path or '').startswith(CONTRACT_MODULES):
        return False
    b = crate.body(path)
    if b is None:
        return True
    return not str(b.raw.get('vis', '')).startswith('Restricted') or bool(b.raw.get('impl_trait'))


DERIVE_MACROS = {'Clone', 'Debug', 'PartialEq', 'PartialOrd', 'Eq', 'Ord', 'From', 'Into', 'Display', 'Error', 'Copy',
                 'Default', 'Hash', 'Add', 'AddAssign', 'Sub', 'Sum'}


def skip_body(b):
    """derive-generated bodies are not part of the crate's own logic (their arithmetic is reached through the
    operator sites of their callers)"""
    return bool(b.mac) and any(m in DERIVE_MACROS for m in b.mac)


_callers_cache = {}


def internal_callers(crate):
    """callee path -> number of call sites inside the crate"""
    cid = id(crate)
    if cid not in _callers_cache:
        cnt = {}
        for b in crate.body_list:
            for n in b.walk():
                if n.get('k') in ('Call', 'MethodCall') and n.get('callee'):
                    cnt[n['callee']] = cnt.get(n['callee'], 0) + 1
                if n.get('k') == 'Path' and n.get('defkind') in ('Fn', 'AssocFn') and n.get('def'):
                    cnt[n['def']] = cnt.get(n['def'], 0) + 1
        _callers_cache[cid] = cnt
    return _callers_cache[cid]


def is_private_helper(crate, b):
    """a non-public free function / inherent method with at least one caller inside the crate"""
    raw = b.raw
    if raw.get('kind') not in ('Fn', 'AssocFn'):
        return False
    if raw.get('impl_trait') or (raw.get('trait') and not raw.get('impl')):
        return False
    if not str(raw.get('vis', '')).startswith('Restricted'):
        return False
    if is_contract_fn(crate, b.path):
        return False
    if any(n.get('k') == 'Loop' for n in b.walk()):
        # functions with loops are analysed on their own -- unless every loop reduces to a search / sum / max / min,
        # in which case the evaluator inlines them like any other helper
        from .evalr import Evaluator
        if not Evaluator(crate).loops_all_reducible(b):
            return False
    return internal_callers(crate).get(b.path, 0) > 0


_ctx_cache = {}


def context_helpers(crate):
    """private functions with (non-reducible) loops that are evaluated in place in EVERY calling context
    (Evaluator(inline_private_loops=True)): their loops and sites are judged where they are used, with the caller's
    arguments and path condition, and not once more on their own.  Moving a loop into such a helper, or folding the helper
    back into its caller, therefore changes neither a key nor a verdict.  A helper that stays an opaque call anywhere
    (recursion, nesting deeper than two, clashing loop numbers) is not in the set and is analysed on its own."""
    cid = id(crate)
    if cid not in _ctx_cache:
        seen, opaque = set(), set()
        for b in crate.body_list:
            if skip_body(b):
                continue
            ev = Evaluator(crate, inline_private_loops='unit')
            try:
                ev.eval_entry(b)
            except RecursionError:
                continue
            seen |= ev.transparent_seen
            opaque |= ev.opaque_loop_calls
        _ctx_cache[cid] = (seen - opaque, crate)
    return _ctx_cache[cid][0]


def collect(crate, body):
    """-> (evaluator, list of site dicts) for one body evaluated as an entry point"""
    ev = Evaluator(crate, inline_private_loops='unit')
    try:
        ev.eval_entry(body)
    except RecursionError:
        return ev, [dict(kind='eval-failed', key=f'EVAL:{body.path}', where=loc(body.raw), text='evaluation did not terminate')]
    sites = []
    seen = set()
    panic_ord = {}
    for e in ev.events:
        k = e['kind']
        if k not in ('sub', 'index', 'unwrap', 'div', 'panic'):
            continue
        if T.FALSE in e['pc']:
            continue    # statically dead (e.g. `if cfg!(debug_assertions) && ..` in a release configuration)
        if e['depth'] > 0:
            # sites of inlined callees are analysed with the callee -- except (a) the conversion API of time.rs, whose
            # preconditions are obligations of each call site, and (b) private helpers, which are only ever reached
            # from inside the crate: their sites are analysed in each calling context (with the caller's path condition)
            cb = crate.body(e['body']) if e['body'] else None
            if not (is_contract_fn(crate, e['body']) and len(e['via']) == 1) and not (cb is not None and is_private_helper(crate, cb)):
                continue
        node = e['node']
        s = dict(kind=k, node=node, where=loc(node), pc=e['pc'], fn=body.path, via=e['via'], mac=node.get('mac') or [],
                 loops=e['loops'])
        if k == 'sub':
            lty = e.get('lty') or ''
            s['goal'] = T.sub(e['a'], e['b'])
            s['text'] = f"{T.show(e['a'])} - {T.show(e['b'])}"
            s['lty'] = lty
        elif k == 'index':
            base = T.unroot(e['base'])
            if isinstance(base, tuple) and base and base[0] == 'elemhavoc':
                base = base[1]
            ix = T.unroot(e['idx'])
            if isinstance(ix, tuple) and ix and ix[0] == 'range':
                # base[lo..hi]: lo <= hi and hi <= len
                n = T.root(('len', base))
                s['goals'] = [T.sub(n, ix[1])] if ix[2] == ('inf',) else [T.sub(ix[2], ix[1]), T.sub(n, ix[2])]
            else:
                s['goal'] = T.sub(T.sub(T.root(('len', base)), e['idx']), T.const(1))
            s['text'] = f"{T.show(base)}[{T.show(e['idx'])}]"
        elif k == 'unwrap':
            s['arg'] = T.unroot(e['arg'])
            s['text'] = f"{e.get('method')}({T.show(e['arg'])})"
            # the condition under which it fails (compared with vetted entries: a vetted `panic!()` after an unsuccessful
            # search and an `.expect()` on the same search fail under the same condition)
            a = s['arg']
            if isinstance(a, tuple) and a and a[0] in ('optproj', 'optmap') and isinstance(a[1], tuple) and a[1] and a[1][0] == 'first':
                a = a[1]
            kind = 'Ok' if 'Result' in str(node.get('recv_ty', '')) else 'Some'
            s['when'] = canon_text(T.show(T.canon(T.tnot(('matches', a, kind)), True)))
        elif k == 'div':
            s['goal'] = T.sub(e['b'], T.const(1))
            s['text'] = f"{T.show(e['a'])} / {T.show(e['b'])}"
        elif k == 'panic':
            s['text'] = 'panic via ' + '/'.join(s['mac'] or ['?']) + ' when ' + (' && '.join(T.show(c) for c in e['pc']) or 'reached')
            # the condition under which it fires, in canonical form (compared with the vetted entry: a weakened or
            # strengthened assert changes which inputs panic)
            # (the macro's own condition is the innermost conjunct; an enclosing guard that merely decides whether a
            # cross-check runs does not change which inputs panic as long as the check itself holds)
            cs = T.canon(e['pc'][-1], True) if e['pc'] else T.TRUE
            conj = cs[1] if isinstance(cs, tuple) and cs and cs[0] == 'and' else (cs,)
            s['when'] = canon_text(' && '.join(sorted(T.show(x) for x in conj)))
            s['when_term'] = cs
        # sites of the time.rs conversion API keep the callee in their key (the obligation belongs to the call site);
        # sites reached through a private helper are keyed by the function they are analysed in (helper extraction /
        # inlining does not change a key)
        via = ('@' + e['via'][-1][0].split('::')[-1]) if e['via'] and is_contract_fn(crate, e['body']) else ''
        if k == 'panic':
            # keyed by the outermost user macro and its ordinal in the function, not by the condition's text
            mac = (s['mac'][-1] if s['mac'] else 'panic')
            panic_ord[mac + via] = panic_ord.get(mac + via, 0) + 1
            s['key'] = f"panic:{body.path}:{mac}#{panic_ord[mac + via]}{via}"
        else:
            s['key'] = f"{k}:{body.path}:{canon_text(s['text'])}{via}"
        if s['key'] in seen:
            continue
        seen.add(s['key'])
        sites.append(s)
    return ev, sites


def canon_text(t):
    import re
    # loop/closure node ids are positions in the HIR: not stable under unrelated edits -> number them by first appearance
    def renumber(pattern, label, text):
        seen = {}

        def rep(m):
            k = m.group(1)
            if k not in seen:
                seen[k] = len(seen) + 1
            return f'{label}#{seen[k]}' if len(seen) > 0 else label
        out = re.sub(pattern, rep, text)
        if len(seen) == 1:
            out = out.replace(f'{label}#1', label)
        return out
    t = renumber(r'havoc\((\d+, \d+)\)', 'loopvar', t)
    t = renumber(r'elemhavoc\(([^()]*(?:\([^()]*\))?[^()]*), \d+, \d+\)', 'elemwise-updated', t) if 'elemhavoc' in t else t
    t = renumber(r'item\((\d+)\)', 'item', t)
    if '$' not in t:
        # `for i in it {..}` and `it.map(|i| ..)` record the same obligation: one name for the iteration variable
        t = re.sub(r'\bitem#(\d+)', lambda m: '$' + str(int(m.group(1)) - 1), t)
        t = re.sub(r'\bitem\b', '$0', t)
    t = renumber(r'index_of\((\d+)\)', 'index', t)
    t = re.sub(r'cp\(\d+, (\d+)\)', r'closure-param\1', t)
    t = re.sub(r'clo\(\d+\)', 'closure', t)
    t = re.sub(r'loopval\(\d+\)', 'loopval', t)
    t = re.sub(r'opaque\((\w+), \d+\)', r'opaque(\1)', t)
    t = re.sub(r'patbind\(\d+\)', 'patbind', t)
    return t


# tables whose entries are non-decreasing by a documented type invariant (FromIterator enforces it for the delta-min
# vector, Curve::new documents it; cumulative cost tables likewise): v[a] - v[b] >= 0 whenever a >= b
MONOTONE_TABLES = ('min_distance', 'wcet_of_n_jobs')


def _linear_facts(pc):
    """the linear conjuncts of a path condition, as forms <= 0 (non-linear conjuncts are dropped: weakening is sound)"""
    from . import linarith as LA
    out = []
    for c in pc:
        cs = c[1] if isinstance(c, tuple) and c and c[0] == 'and' else (c,)
        for x in cs:
            d = LA._conds(x)
            if d is not None and len(d) == 1:
                out.extend(d[0])
    return out


def la_nonneg(goal, pc):
    """goal >= 0 by linear entailment with quotient / remainder facts (sa/linarith.py).  A quotient that occurs in the
    goal has been evaluated before the site is reached, so its divisor is at least 1 there."""
    from . import linarith as LA
    goal = T.as_lin(goal)
    base = _linear_facts(pc)
    for x in T.subterms(goal):
        if isinstance(x, tuple) and x and x[0] in ('div', 'rem'):
            base.append(T.sub(T.const(1), T.as_lin(x[2])))
            base.append(T.neg(T.as_lin(x[1])))
    if any(isinstance(r, tuple) and r and r[0] in LA.SPLITTABLE for l in base + [goal] for r, _ in T.as_lin(l)[2]):
        sg = LA.split(goal)
        if sg is None:
            return None
        alts = []
        for g2, v2 in sg:
            ex = LA._expand_guards(base + g2)
            if ex is None:
                return None
            alts += [(gg, v2) for gg in ex]
    else:
        alts = [(base, goal)]
    n = 0
    for facts, v in alts:
        if LA.infeasible(facts):
            continue
        for f in LA.closure(facts, [v]):
            if LA.infeasible(f):
                continue
            n += 1
            if not LA.entails_le0(f, T.neg(T.as_lin(v))):
                return None
    return f'linear entailment with quotient/remainder facts ({n} case(s))'


def monotone_table_nonneg(goal, pc):
    """goal = v[a] - v[b] + (non-negative rest) for a monotone table v, with a >= b entailed"""
    goal = T.as_lin(goal)
    pos_ = [(r, c) for r, c in goal[2] if c > 0 and isinstance(r, tuple) and r and r[0] == 'idx']
    neg_ = [(r, c) for r, c in goal[2] if c < 0]
    if len(neg_) != 1 or neg_[0][1] != -1 or not (isinstance(neg_[0][0], tuple) and neg_[0][0] and neg_[0][0][0] == 'idx') or goal[1] < 0:
        return None
    lo = neg_[0][0]
    base = lo[1]
    name = base[2] if isinstance(base, tuple) and len(base) == 3 and base[0] == 'f' else None
    if name not in MONOTONE_TABLES:
        return None
    for hi, c in pos_:
        if hi[1] == base and c >= 1:
            d = T.sub(T.as_lin(hi[2]), T.as_lin(lo[2]))
            if implies_nonneg(d, pc) or la_nonneg(d, pc):
                return f'{name} is a non-decreasing table (documented type invariant) and the first index is not smaller'
    return None


# struct field -> the collection it holds is never empty: established at every construction site and preserved by every
# mutation (rules TINV-EST / TINV-KEEP of C20 decide both; the field name must be unique among the crate's structs)
NONEMPTY_FIELDS = {'min_distance': 'arrival::curve::Curve'}


def type_invariant_facts(terms):
    """facts  len(x.f) >= 1  for the non-empty fields mentioned in the terms"""
    out = []
    for t in terms:
        for y in T.subterms(t):
            if isinstance(y, tuple) and len(y) == 2 and y[0] == 'len' and isinstance(y[1], tuple) and len(y[1]) == 3 and y[1][0] == 'f' \
                    and y[1][2] in NONEMPTY_FIELDS:
                f = T.le0(T.sub(T.const(1), T.root(y)))
                if f not in out and f != T.TRUE:
                    out.append(f)
    return out


def _by_cases(goal, pc):
    """a goal with conditionals / min / max: every case on its own, under the case's guards"""
    from . import linarith as LA
    try:
        sg = LA.split(T.as_lin(goal))
    except Exception:
        return None
    if not sg or len(sg) < 2 or len(sg) > 8:
        return None
    why = []
    for guards, v in sg:
        pc2 = tuple(pc) + tuple(T.le0(x) for x in guards)
        if LA.infeasible([T.as_lin(x) for c in pc2 for x in ((LA._conds(c) or [[]])[0] if LA._conds(c) is not None and len(LA._conds(c)) == 1 else [])]):
            continue
        r = implies_nonneg(v, pc2) or monotone_table_nonneg(v, pc2) or la_nonneg(v, pc2)
        if r is None:
            return None
        if r not in why:
            why.append(r)
    return 'case by case: ' + ' / '.join(why) if why else None


def discharge(s):
    """-> reason string if the site is discharged by its path condition, else None"""
    k = s['kind']
    if k in ('sub', 'index', 'div'):
        goals = s['goals'] if 'goals' in s else [s['goal']]
        rs = []
        for g in goals:
            r = implies_nonneg(g, s['pc']) or (monotone_table_nonneg(g, s['pc']) if k == 'sub' else None) or la_nonneg(g, s['pc'])
            if r is None and k == 'sub':
                r = _by_cases(g, s['pc'])
            if r is None:
                inv = type_invariant_facts([g] + list(s['pc']))
                pc2 = tuple(s['pc']) + tuple(inv)
                r = (implies_nonneg(g, pc2) or la_nonneg(g, pc2)) if inv else None
                if r is not None:
                    r += ' with the type invariant that ' + ', '.join(sorted({y[1][2] for t in [g] for y in T.subterms(t) if isinstance(y, tuple) and len(y) == 2 and y[0] == 'len' and isinstance(y[1], tuple) and len(y[1]) == 3 and y[1][0] == 'f' and y[1][2] in NONEMPTY_FIELDS})) + ' is never empty (TINV)'
            if r is None:
                return None
            rs.append(r)
        return '; '.join(rs)
    if k == 'unwrap':
        arg = s['arg']
        if isinstance(arg, tuple) and len(arg) == 2 and arg[0] in ('last', 'first') and isinstance(arg[1], tuple) and len(arg[1]) == 3 \
                and arg[1][0] == 'f' and arg[1][2] in NONEMPTY_FIELDS:
            return f'{arg[0]}() of {arg[1][2]}, which is never empty (type invariant, TINV)'
        for c in s['pc']:
            if c == ('matches', arg, 'Ok') or c == ('matches', arg, 'Some'):
                return 'dominated by an is_err/is_some test'
        # max()/min() over a range that cannot be empty
        if isinstance(arg, tuple) and arg and arg[0] in ('maxof', 'minof'):
            it = arg[1]
            while isinstance(it, tuple) and it and it[0] in ('map', 'rev', 'enumerate'):
                it = it[1]
            if isinstance(it, tuple) and it and it[0] == 'range' and it[2] != ('inf',):
                if implies_nonneg(T.sub(T.sub(it[2], it[1]), T.const(1)), s['pc']):
                    return 'maximum/minimum over a non-empty range'
        return None
    return None
