"""Semantic clauses decided by linear entailment over the guarded cases of a function (sa/linarith.py).

Unlike the REF rules (which compare a function with a reviewed reference summary), these rules prove a stated
algebraic law of the *current* code for all inputs: the function is evaluated to its guarded piecewise-linear cases,
the law is instantiated by substitution (delta := 0, delta := delta + 1, delta := service_time(d), deadline := period,
...), and every jointly feasible pair of cases must entail the law; integer division is handled by the quotient /
remainder facts of linarith.closure.  Well-formedness assumptions are read off the constructor's own asserts."""

from . import term as T
from . import linarith as LA
from .evalr import Evaluator
from .facts import loc
from .report import AnchorMissing

P0, P1 = T.param(0), T.param(1)
ARG = T.root(P1)

# roots that denote unsigned integers and that linear reasoning may treat as opaque non-negative unknowns
ATOMIC = ('p', 'f', 'div', 'mul', 'rem', 'len', 'v', 'idx', 'call', 'case', 'count', 'sum', 'maxof', 'minof', 'optor')


def fn_cases(crate, path, sub=None):
    """[(pc, value)] of a loop-free function: the fall-through value and every early return"""
    b = crate.body(path)
    if b is None:
        raise AnchorMissing(f'{path}: function not found')
    ev = Evaluator(crate)
    top = ev.eval_entry(b)
    if any(e['kind'] == 'loop' and e['depth'] == 0 and not e.get('reduced') for e in ev.events):
        raise AnchorMissing(f'{path}: contains a loop (not a closed form)')
    out = [(tuple(ev.fallthrough_pc), top)]
    for e in ev.events:
        if e['kind'] == 'ret' and e['depth'] == 0 and not e['loops'] and not e.get('joined'):
            out.append((tuple(e['pc']), e['value']))
    if sub:
        out = [(tuple(T.substitute(x, sub) for x in pc), T.substitute(v, sub)) for pc, v in out]
    return out, b


def lin_cases(crate, path, sub=None):
    pcv, b = fn_cases(crate, path, sub)
    cs = LA.cases_of(pcv)
    if cs is None:
        raise AnchorMissing(f'{path}: not piecewise linear (a condition or value outside the linear fragment)')
    for g, v in cs:
        for l in g + [v]:
            for r, _ in T.as_lin(l)[2]:
                if not (isinstance(r, tuple) and r and r[0] in ATOMIC):
                    raise AnchorMissing(f'{path}: case mentions {T.show(r)[:80]}, which is not an atom of the linear fragment')
    return cs, b


def pure_lin_cases(crate, path, allow_calls=False):
    """guarded linear cases of a function that is a closed form without effects; None otherwise.
    With allow_calls, mutating calls are tolerated (the caller compares them separately)."""
    b = crate.body(path)
    if b is None:
        return None
    try:
        ev = Evaluator(crate)
        top = ev.eval_entry(b)
    except RecursionError:
        return None
    reduced = {e['node'].get('_nid') for e in ev.events if e['kind'] == 'loop' and e.get('reduced')}
    for e in ev.events:
        if e['depth'] == 0 and e['loops'] and all(l in reduced for l in e['loops']) and e['kind'] in ('assign', 'break'):
            continue    # the accumulator of a loop that was reduced to a sum / max / min / search: part of the value
        if e['depth'] == 0 and e['kind'] in (('assign', 'break') if allow_calls else ('assign', 'mutcall', 'break')) \
                or (e['kind'] == 'loop' and e['depth'] == 0 and not e.get('reduced')):
            return None
    out = [(tuple(ev.fallthrough_pc), top)]
    for e in ev.events:
        if e['kind'] == 'ret' and e['depth'] == 0 and not e['loops'] and not e.get('joined'):
            out.append((tuple(e['pc']), e['value']))
    cs = LA.cases_of(out)
    if cs is None:
        return None
    for g, v in cs:
        for l in g + [v]:
            for r, _ in T.as_lin(l)[2]:
                if not (isinstance(r, tuple) and r and r[0] in ATOMIC):
                    return None
    return cs


def self_type_wf(crate, path):
    """assumptions asserted by `<Self>::new` for a method path `<Self as Trait>::m` or `Self::m`; [] if there is none"""
    import re
    m = re.match(r'^<(.+?) as .+>::\w+$', path)
    ty = m.group(1) if m else '::'.join(path.split('::')[:-1])
    ty = re.sub(r'<.*>$', '', ty)
    try:
        return ctor_wf(crate, ty + '::new')[0]
    except AnchorMissing:
        return []


def ctor_wf(crate, path):
    """well-formedness facts stated by a constructor's asserts, over the fields of the value it builds:
       -> (facts as forms <= 0 over p0.<field>, {param index: field name}, n_asserts)"""
    b = crate.body(path)
    if b is None:
        raise AnchorMissing(f'{path}: constructor not found')
    ev = Evaluator(crate)
    top = T.unroot(ev.eval_entry(b))
    if not (isinstance(top, tuple) and top and top[0] == 'struct'):
        raise AnchorMissing(f'{path}: does not return a struct literal')
    fmap = {}
    for name, v in top[2]:
        r = T.single_root(T.as_lin(v)) if T.is_lin(T.as_lin(v)) else None
        if isinstance(r, tuple) and r and r[0] == 'p':
            fmap[r[1]] = name
    sub = {T.param(i): T.root(T.fld(P0, f)) for i, f in fmap.items()}
    facts = []
    known = []      # conditions that hold once the earlier asserts have passed
    n = 0
    for e in ev.events:
        if e['kind'] != 'panic' or e['depth'] != 0:
            continue
        n += 1
        # the assert fires under e['pc']; a value exists only when that condition is false
        fires = T.simplify_under(T.tand(*e['pc']), known) if e['pc'] else T.TRUE
        passed = T.tnot(fires)
        d = LA._conds(passed)
        if d is None or len(d) != 1:
            continue
        known.append(passed)
        facts += [T.substitute(l, sub) for l in d[0]]
    return facts, fmap, n


def _show_case(g, v):
    return (' && '.join(T.show(T.le0(x)) for x in g) or 'always') + ' => ' + T.show(v)


def _judge(rep, rule, key, where, fn, res, what, law, why, direction=None):
    ok, info = res
    if ok:
        rep.ok(rule, key, where, f'{what}: proved for all inputs ({info} feasible case combination(s), linear entailment with quotient/remainder facts)',
               law, fn=fn)
    else:
        g1, v1, g2, v2 = info
        rep.bad(rule, key, where, f'{what}: not entailed in the case  [{_show_case(g1, v1)[:300]}]  vs  [{_show_case(g2, v2)[:300]}]',
                law, fn=fn, why=why, direction=direction)


SUPPLIES = {
    'Periodic': dict(ctor='supply::periodic::Periodic::new',
                     ps='<supply::periodic::Periodic as supply::SupplyBound>::provided_service',
                     st='<supply::periodic::Periodic as supply::SupplyBound>::service_time'),
    'Constrained': dict(ctor='supply::constrained::Constrained::new',
                        ps='<supply::constrained::Constrained as supply::SupplyBound>::provided_service',
                        st='<supply::constrained::Constrained as supply::SupplyBound>::service_time'),
    'Dedicated': dict(ctor=None,
                      ps='<supply::dedicated::Dedicated as supply::SupplyBound>::provided_service',
                      st='<supply::dedicated::Dedicated as supply::SupplyBound>::service_time'),
}


def check_supply_laws(rep, crate, sib_only=False):
    """C09: zero at zero, 1-Lipschitz monotone, service_time the exact inverse, and the reductions between the models"""
    n = 0
    wf = {}
    fields = {}
    for name, m in SUPPLIES.items():
        if m['ctor'] is None:
            wf[name], fields[name] = [], {}
            continue
        try:
            facts, fmap, k = ctor_wf(crate, m['ctor'])
        except AnchorMissing as ex:
            rep.bad('ANCHOR', f'ANCHOR:{m["ctor"]}', m['ctor'], ex.what, fn=m['ctor'], why='fail closed')
            continue
        byname = {f: T.root(T.fld(P0, f)) for f in fmap.values()}
        fields[name] = byname
        if 'budget' not in byname or 'period' not in byname:
            rep.bad('ANCHOR', f'ANCHOR:{m["ctor"]}:fields', m['ctor'], f'constructor fills {sorted(byname)}', 'fields budget and period', fn=m['ctor'])
            continue
        # documented in addition (C20's well-formedness): budgets are at least 1
        wf[name] = facts + [T.sub(T.const(1), byname['budget'])]
        where = loc(crate.body(m['ctor']).raw)
        want = 1 if name == 'Periodic' else 2
        if len(facts) >= want:
            rep.ok('SUP-WF', f'SUP-WF:{name}', where, f'{k} assert(s) in the constructor give the assumptions ' +
                   ', '.join(T.show(T.le0(f)) for f in facts) + ' (plus budget >= 1, documented)', fn=m['ctor'])
        else:
            rep.bad('SUP-WF', f'SUP-WF:{name}', where, f'constructor asserts give only {[T.show(T.le0(f)) for f in facts]}',
                    'budget <= period' if name == 'Periodic' else 'budget <= deadline and deadline <= period', fn=m['ctor'],
                    why='the laws below hold under these assumptions only; a constructor that no longer checks them lets ill-formed reservations in')
        n += 1
    for name, m in SUPPLIES.items():
        if name not in wf or sib_only:
            continue
        A = wf[name]
        try:
            ps, bps = lin_cases(crate, m['ps'])
            st, bst = lin_cases(crate, m['st'])
        except AnchorMissing as ex:
            rep.bad('ANCHOR', f'ANCHOR:SUP:{name}', m['ps'], ex.what, fn=m['ps'], why='fail closed')
            continue
        wps, wst = loc(bps.raw), loc(bst.raw)
        zero = [([], T.const(0))]
        _judge(rep, 'SUP-ZERO', f'SUP-ZERO:{name}:provided_service', wps, m['ps'],
               LA.equal_under(lin_cases(crate, m['ps'], {P1: T.const(0)})[0], zero, A),
               'provided_service(0) = 0', 'no service is guaranteed in an empty interval', 'a supply bound that is positive at 0 promises service that cannot be delivered')
        _judge(rep, 'SUP-ZERO', f'SUP-ZERO:{name}:service_time', wst, m['st'],
               LA.equal_under(lin_cases(crate, m['st'], {P1: T.const(0)})[0], zero, A),
               'service_time(0) = 0', 'no demand is served immediately', 'C08 relies on Ok(0) for zero demand')
        nxt = lin_cases(crate, m['ps'], {P1: T.add(ARG, T.const(1))})[0]
        _judge(rep, 'SUP-LIP', f'SUP-LIP:{name}', wps, m['ps'], LA.holds_between(ps, nxt, A, 0, 1, steps=True),
               '0 <= provided_service(delta + 1) - provided_service(delta) <= 1',
               'non-decreasing, at most one unit of service per time unit',
               'the fixed-point search and the default service_time rely on both bounds')
        # exact inverse: for d >= 1, ps(st(d)) >= d and ps(st(d) - 1) <= d - 1
        reach = least = (True, 0)
        for g, t in st:
            base = A + g + [T.sub(T.const(1), ARG)]
            if LA.infeasible(base):
                continue
            at = lin_cases(crate, m['ps'], {P1: t})[0]
            r = LA.holds_between([([], ARG)], at, base, 0, None)
            reach = (reach[0] and r[0], (reach[1] + r[1]) if (reach[0] and r[0]) else (r[1] if not r[0] else reach[1]))
            before = lin_cases(crate, m['ps'], {P1: T.sub(t, T.const(1))})[0]
            r2 = LA.holds_between(before, [([], ARG)], base, 1, None)
            least = (least[0] and r2[0], (least[1] + r2[1]) if (least[0] and r2[0]) else (r2[1] if not r2[0] else least[1]))
        _judge(rep, 'SUP-INV', f'SUP-INV:{name}:reach', wst, m['st'], reach, 'provided_service(service_time(d)) >= d for d >= 1',
               'service_time(d) is long enough', 'a shorter service_time makes every response-time bound optimistic (unsafe)')
        _judge(rep, 'SUP-INV', f'SUP-INV:{name}:least', wst, m['st'], least, 'provided_service(service_time(d) - 1) <= d - 1 for d >= 1',
               'service_time(d) is the smallest such t (with SUP-LIP: provided_service is non-decreasing)',
               'a longer service_time is pessimistic and breaks exactness (C06/C07)', direction='pessimistic-only: service_time longer than necessary')
        n += 6
        # ---- SUP-SHAPE: the function is the supply of the worst-case budget placement, clause by clause
        f = fields.get(name) or {}
        if name == 'Dedicated':
            _judge(rep, 'SUP-SHAPE', 'SUP-SHAPE:Dedicated', wps, m['ps'], LA.equal_under(ps, [([], ARG)], A),
                   'provided_service(delta) = delta', 'a dedicated processor serves every time unit', 'anything else is not a dedicated processor')
            n += 1
        elif 'budget' in f and 'period' in f:
            B, P = f['budget'], f['period']
            D = f.get('deadline', P)
            bo = T.add(T.sub(P, B), T.sub(D, B))        # the longest blackout: budget at the very start of one period, then at the very end of the next deadline window
            d_bo = T.sub(ARG, bo)
            shape = [
                ('blackout', [d_bo], [([], T.const(0))],
                 'delta <= (P - B) + (D - B)  =>  provided_service(delta) = 0', 'no service during the longest blackout'),
                ('ramp', [T.neg(d_bo), T.sub(d_bo, B)], [([], d_bo)],
                 '(P - B) + (D - B) <= delta <= blackout + B  =>  provided_service(delta) = delta - blackout', 'then one unit of service per time unit while the budget lasts'),
                ('plateau', [T.sub(B, d_bo), T.sub(d_bo, P)], [([], B)],
                 'blackout + B <= delta <= blackout + P  =>  provided_service(delta) = B', 'then nothing until the next budget'),
            ]
            for tag, extra, want, law, means in shape:
                _judge(rep, 'SUP-SHAPE', f'SUP-SHAPE:{name}:{tag}', wps, m['ps'], LA.holds_between(ps, want, A + extra, 0, 0, steps=True), law, means,
                       'C09: the closed form must equal the supply under the worst-case placement of the budget on the first period ..')
            later = lin_cases(crate, m['ps'], {P1: T.add(ARG, P)})[0]
            shifted = [(g, T.add(v, B)) for g, v in ps]
            _judge(rep, 'SUP-SHAPE', f'SUP-SHAPE:{name}:periodic', wps, m['ps'], LA.holds_between(shifted, later, A + [T.neg(d_bo)], 0, 0, steps=True),
                   'delta >= blackout  =>  provided_service(delta + P) = provided_service(delta) + B', 'after the first blackout the pattern repeats with the period',
                   '.. and repeat it: with the three clauses above this determines provided_service for every delta (induction on the number of periods)')
            n += 4
    # reductions between the models
    if 'Constrained' in fields and 'Periodic' in fields and 'Constrained' in wf and 'Periodic' in wf and 'deadline' in fields['Constrained']:
        fc, fp = fields['Constrained'], fields['Periodic']
        for which in ('ps', 'st'):
            try:
                a = lin_cases(crate, SUPPLIES['Constrained'][which], {T.unroot(fc['deadline']): fc['period']})[0]
                b_, bb = lin_cases(crate, SUPPLIES['Periodic'][which])
                _judge(rep, 'SUP-SIB', f'SUP-SIB:Constrained[deadline:=period]==Periodic:{which}', loc(bb.raw), SUPPLIES['Constrained'][which],
                       LA.equal_under(a, b_, wf['Periodic']), f'Constrained with deadline = period computes Periodic\'s {which}',
                       'the two models describe the same reservation', 'C09/C19: sibling models must agree on their common special case')
                a = lin_cases(crate, SUPPLIES['Periodic'][which], {T.unroot(fp['budget']): fp['period']})[0]
                _judge(rep, 'SUP-SIB', f'SUP-SIB:Periodic[budget:=period]==Dedicated:{which}', loc(bb.raw), SUPPLIES['Periodic'][which],
                       LA.equal_under(a, lin_cases(crate, SUPPLIES['Dedicated'][which])[0], [T.sub(T.const(1), fp['period'])]),
                       f'Periodic with budget = period computes Dedicated\'s {which}', 'a full-budget reservation is a dedicated processor',
                       'C09/C19: with PARAM (every ROS 2 analysis uses its supply only through these two methods) the analyses agree')
                a = lin_cases(crate, SUPPLIES['Constrained'][which], {T.unroot(fc['budget']): fc['period'], T.unroot(fc['deadline']): fc['period']})[0]
                _judge(rep, 'SUP-SIB', f'SUP-SIB:Constrained[budget:=deadline:=period]==Dedicated:{which}', loc(bb.raw), SUPPLIES['Constrained'][which],
                       LA.equal_under(a, lin_cases(crate, SUPPLIES['Dedicated'][which])[0], [T.sub(T.const(1), fc['period'])]),
                       f'Constrained with budget = deadline = period computes Dedicated\'s {which}', 'a full-budget reservation is a dedicated processor',
                       'C09/C19: sibling models must agree on their common special case')
                n += 3
            except AnchorMissing as ex:
                rep.bad('ANCHOR', f'ANCHOR:SUP-SIB:{which}', SUPPLIES['Constrained'][which], ex.what, fn=SUPPLIES['Constrained'][which], why='fail closed')
    return n


# ------------------------------------------------------------------ closed-form arrival models (C10, C11)

ARRIVALS = {
    'Periodic': dict(n='<arrival::periodic::Periodic as arrival::ArrivalBound>::number_arrivals',
                     steps='<arrival::periodic::Periodic as arrival::ArrivalBound>::steps_iter',
                     period='period', jitter=None),
    'Sporadic': dict(n='<arrival::sporadic::Sporadic as arrival::ArrivalBound>::number_arrivals',
                     steps='<arrival::sporadic::Sporadic as arrival::ArrivalBound>::steps_iter',
                     period='min_inter_arrival', jitter='jitter'),
}


def _arrival_params(crate, name, m):
    adt = None
    for path, a in crate.adts.items():
        if path.endswith('::' + name) and path.startswith('arrival::'):
            adt = a
    per = T.root(T.fld(P0, m['period']))
    jit = T.root(T.fld(P0, m['jitter'])) if m['jitter'] else T.const(0)
    if adt is not None:
        fields = [f.get('name') for v in adt.get('variants', []) for f in v.get('fields', [])]
        for f in (m['period'], m['jitter']):
            if f and fields and f not in fields:
                raise AnchorMissing(f'arrival::{name} has no field `{f}` (fields: {fields})')
    return per, jit


def check_arrival_laws(rep, crate):
    """C10 for the closed-form models: number_arrivals(0) = 0, non-decreasing, and for delta >= 1 it is exactly
    ceil((delta + jitter) / period): the least n with n * period >= delta + jitter (attained by the synchronous release
    sequence with maximal jitter; sub-additivity follows from leastness)"""
    n = 0
    for name, m in ARRIVALS.items():
        try:
            per, jit = _arrival_params(crate, name, m)
            cs, b = lin_cases(crate, m['n'])
            where = loc(b.raw)
            wf = [T.sub(T.const(1), per)]
            _judge(rep, 'ARR-ZERO', f'ARR-ZERO:{name}', where, m['n'],
                   LA.equal_under(lin_cases(crate, m['n'], {P1: T.const(0)})[0], [([], T.const(0))], wf),
                   'number_arrivals(0) = 0', 'an empty interval contains no event', 'offset 0 of every busy window relies on it')
            nxt = lin_cases(crate, m['n'], {P1: T.add(ARG, T.const(1))})[0]
            _judge(rep, 'ARR-MONO', f'ARR-MONO:{name}', where, m['n'], LA.holds_between(cs, nxt, wf, 0, None, steps=True),
                   'number_arrivals(delta + 1) >= number_arrivals(delta)', 'non-decreasing in the interval length',
                   'a decreasing arrival bound undercounts longer windows (unsafe)')
            total = T.add(ARG, jit)
            A1 = wf + [T.sub(T.const(1), ARG)]
            for side, goal, law, direction, why in (
                    ('covers', lambda v: [T.sub(LA.times(v, per), total)], 'n * T >= delta + J',
                     'under: fewer arrivals than fit into the window',
                     'up to ceil((delta+J)/T) events fit into a window of length delta (first event maximally delayed, the others as early as possible): a smaller value undercounts (unsafe)'),
                    ('least', lambda v: [T.sub(T.sub(total, T.const(1)), LA.times(T.sub(v, T.const(1)), per))], '(n - 1) * T <= delta + J - 1',
                     'pessimistic-only: more arrivals than can occur',
                     'a larger value is safe but not attained (C10 "moreover attained", C18)')):
                res = LA.holds_all(cs, A1, goal)
                if res[0]:
                    rep.ok('ARR-CEIL', f'ARR-CEIL:{name}:{side}', where,
                           f'for delta >= 1: {law} with n = number_arrivals(delta), T = {T.show(per)}, J = {T.show(jit)}: proved for all inputs ({res[1]} feasible case combination(s))',
                           'number_arrivals(delta) = ceil((delta + J) / T), the least n with n * T >= delta + J', fn=m['n'])
                else:
                    g, v, _, gl = res[1]
                    rep.bad('ARR-CEIL', f'ARR-CEIL:{name}:{side}', where, f'in the case [{_show_case(g, v)[:300]}] {law} is not entailed',
                            'number_arrivals(delta) = ceil((delta + J) / T) for delta >= 1', fn=m['n'], direction=direction, why=why)
            n += 4
        except AnchorMissing as ex:
            rep.bad('ANCHOR', f'ANCHOR:ARR:{name}', m['n'], ex.what, fn=m['n'], why='fail closed')
    return n


def _singleton(t, field_path, x):
    """rewrite a term over a collection-valued place that holds the one-element literal [x]: its length is 1, its elements
    are x, a count / search over it is decided by the predicate at x"""
    V = field_path

    def is_elems(u):
        return u == V or u == ('elems', V)

    def walk(u):
        if not isinstance(u, tuple) or not u:
            return u
        if T.is_lin(u):
            acc = T.const(u[1])
            for r, c in u[2]:
                acc = T.add(acc, T.scale(T.as_lin(walk(r)), c))
            return acc
        if u[0] == 'len' and len(u) == 2 and is_elems(u[1]):
            return T.const(1)
        if u[0] == 'idx' and len(u) == 3 and is_elems(u[1]):
            return x                                  # every valid index of a one-element vector is 0
        if u[0] == 'count' and len(u) == 2 and isinstance(u[1], tuple) and u[1] and u[1][0] in ('take_while', 'filter') \
                and is_elems(T.unroot(u[1][1])) and u[1][2][0] == 'lam':
            lam = u[1][2]
            return T.ind(walk(T.substitute(lam[2], {T.bv(lam[1]): x})))
        if u[0] == 'case' and len(u) == 4 and u[2] == 'Some' and isinstance(u[1], tuple) and u[1] and u[1][0] == 'first' \
                and isinstance(u[1][1], tuple) and u[1][1][0] == 'enumerate' and is_elems(T.unroot(u[1][1][1])):
            return T.tup(T.const(0), x)               # the hit of a successful search over [(0, x)]
        new = tuple(walk(y) for y in u)
        return T.renorm(new)
    return walk(t)


def check_conversion_laws(rep, crate):
    """C12 for the periodic conversion: Curve::from(Periodic { period }) answers number_arrivals exactly like the periodic
    model itself, for every interval length and period -- proved from the code of Curve::number_arrivals specialised to the
    one-element delta-min vector that the conversion builds, against the code of Periodic::number_arrivals"""
    conv = '<arrival::curve::Curve as std::convert::From<arrival::periodic::Periodic>>::from'
    cna = '<arrival::curve::Curve as arrival::ArrivalBound>::number_arrivals'
    pna = ARRIVALS['Periodic']['n']
    n = 0
    try:
        b = crate.body(conv)
        if b is None:
            raise AnchorMissing(f'{conv}: conversion not found')
        ev = Evaluator(crate)
        top = T.unroot(ev.eval_entry(b))
        structs = [y for y in T.subterms(top) if isinstance(y, tuple) and len(y) == 3 and y[0] == 'struct' and y[1] == 'arrival::curve::Curve']
        lits = [y for st in structs for y in T.subterms(dict(st[2]).get('min_distance')) if isinstance(y, tuple) and len(y) == 2 and y[0] == 'arr'] if structs else []
        where = loc(b.raw)
        if len(structs) != 1 or len(lits) != 1 or len(lits[0][1]) != 1:
            # e.g. the conversion delegates to a constructor: follow one level
            raise AnchorMissing(f'{conv}: does not build the curve from a one-element literal: {T.show(top)[:160]}')
        x = T.as_lin(lits[0][1][0])
        per = T.root(T.fld(P0, ARRIVALS['Periodic']['period']))
        if x != per:
            rep.bad('CONV', 'CONV:Periodic:literal', where, f'the conversion stores {T.show(x)} as the distance of two jobs', T.show(per), fn=conv,
                    why='the minimum distance of two jobs of a periodic source is its period')
            return 1
        pcv, cb = fn_cases(crate, cna)
        V = ('f', ('p', 0), 'min_distance')
        pcv = [(tuple(_singleton(c, V, x) for c in pc), _singleton(v, V, x)) for pc, v in pcv]
        cur = LA.cases_of(pcv)
        ref, pb = lin_cases(crate, pna)
        if cur is None:
            raise AnchorMissing(f'{cna}: not piecewise linear over a one-element delta-min vector')
        # the search that ends Curve::number_arrivals succeeds (vetted: the tail is below the largest distance); period >= 1
        wf = [T.sub(T.const(1), per)]
        _judge(rep, 'CONV', 'CONV:Periodic:number_arrivals', loc(cb.raw), cna, LA.equal_under(cur, ref, wf),
               'Curve::from(Periodic { period }).number_arrivals(delta) = Periodic { period }.number_arrivals(delta) for all delta and period >= 1',
               'the derived curve coincides with its periodic source everywhere (never smaller, never larger)',
               'C12: a derived curve that is smaller than its source undercounts (unsafe); a larger one loses exactness')
        n += 1
    except AnchorMissing as ex:
        rep.bad('ANCHOR', 'ANCHOR:CONV:Periodic', conv, ex.what, fn=conv, why='fail closed')
    return n


def _generators(t):
    """steps term -> list of (lo, pred or None, f, d) generators `map(filter(range(lo, inf), λd. pred), λd. f)` and a list of
    constants yielded first (once(k)); None if the shape is different"""
    t = T.unroot(t)
    if isinstance(t, tuple) and t and t[0] == 'chain':
        a, b = _generators(t[1]), _generators(t[2])
        if a is None or b is None:
            return None
        return a[0] + b[0], a[1] + b[1]
    if isinstance(t, tuple) and t and t[0] == 'once' and T.is_const(T.as_lin(t[1])):
        return [T.as_lin(t[1])[1]], []
    if isinstance(t, tuple) and t and t[0] == 'map' and t[2][0] == 'lam':
        src = t[1]
        d = t[2][1]
        pred = None
        if isinstance(src, tuple) and src and src[0] == 'filter' and src[2][0] == 'lam':
            pred = T.substitute(src[2][2], {T.bv(src[2][1]): T.root(T.bv(d))}) if src[2][1] != d else src[2][2]
            src = src[1]
        if isinstance(src, tuple) and src and src[0] == 'range' and src[2] == ('inf',) and T.is_const(T.as_lin(src[1])):
            return [], [(T.as_lin(src[1])[1], pred, T.as_lin(t[2][2]), d)]
    return None


def check_step_laws(rep, crate):
    """C11 for the closed-form models: steps_iter yields exactly the delta >= 1 with number_arrivals(delta - 1) <
    number_arrivals(delta), in strictly increasing order"""
    n = 0
    for name, m in ARRIVALS.items():
        try:
            per, jit = _arrival_params(crate, name, m)
            b = crate.body(m['steps'])
            if b is None:
                raise AnchorMissing('steps_iter not found')
            where = loc(b.raw)
            ev = Evaluator(crate)
            gens = _generators(ev.eval_entry(b))
            if gens is None or len(gens[1]) != 1:
                raise AnchorMissing('steps_iter is not [once(k) chained with] one map(filter(range(lo..), pred), f) generator')
            consts, [(lo, pred, f, d)] = gens
            J_ = T.root(T.var('j'))
            sub = {T.bv(d): J_}
            f = T.substitute(f, sub)
            predc = LA._conds(T.substitute(pred, sub)) if pred is not None else [[]]
            if predc is None or len(predc) != 1:
                raise AnchorMissing('the filter predicate of steps_iter is not a conjunction of linear inequalities')
            wf = [T.sub(T.const(1), per)]
            hyp = wf + [T.sub(T.const(lo), J_)] + predc[0]
            # (a) every yielded value is >= 1 and a point of increase
            ok_all = True
            for k in consts:
                at = lin_cases(crate, m['n'], {P1: T.const(k)})[0]
                bf = lin_cases(crate, m['n'], {P1: T.const(k - 1)})[0]
                r = LA.holds_between(bf, at, wf, 1, None)
                _judge(rep, 'STEP-LAW', f'STEP-LAW:{name}:sound:once({k})', where, m['steps'], r if k >= 1 else (False, ([], T.const(k), [], T.const(1))),
                       f'the leading step {k} is >= 1 and number_arrivals({k - 1}) < number_arrivals({k})', 'every yielded value is a point of increase',
                       'a spurious or zero step: C11; offset -1 in the analyses (C20)')
                n += 1
            at = lin_cases(crate, m['n'], {P1: f})[0]
            bf = lin_cases(crate, m['n'], {P1: T.sub(f, T.const(1))})[0]
            r = LA.holds_between(bf, at, hyp, 1, None)
            r1 = LA.holds_all([([], f)], hyp, lambda v: [T.sub(v, T.const(1))])
            _judge(rep, 'STEP-LAW', f'STEP-LAW:{name}:sound', where, m['steps'], (r[0] and r1[0], r[1] if not r[0] else (r1[1] if not r1[0] else r[1] + r1[1])),
                   f'for every j >= {lo} passing the filter: {T.show(f)} >= 1 and number_arrivals({T.show(f)} - 1) < number_arrivals({T.show(f)})',
                   'every yielded value is a point of increase', 'a spurious step costs time only; a step < 1 breaks C11/C20')
            # (b) every point of increase is yielded: delta >= 1 (and beyond the leading constants) with n(delta-1) < n(delta)
            #     is f(j*) for j* = (delta - c0) / T, where f(j) = T * j + c0
            c0 = T.sub(f, T.mul(J_, per))
            if T.mentions(c0, T.unroot(J_)):
                raise AnchorMissing(f'steps_iter yields {T.show(f)}, which is not period * j + c')
            first = max(consts) + 1 if consts else 1
            cs_now, _ = lin_cases(crate, m['n'])
            cs_prev = lin_cases(crate, m['n'], {P1: T.sub(ARG, T.const(1))})[0]
            jstar = T.div(T.sub(ARG, c0), per)
            back = T.add(T.mul(jstar, per), c0)
            goals_ok, nn, wit = True, 0, None
            for g1, v1 in cs_prev:
                for g2, v2 in cs_now:
                    base = wf + [T.sub(T.const(first), ARG)] + g1 + g2 + [T.sub(T.add(v1, T.const(1)), v2)]
                    if LA.infeasible(base):
                        continue
                    if not LA.entails_le0(base, T.sub(c0, ARG)):
                        goals_ok, wit = False, (g1, v1, g2, v2)
                        break
                    want = [T.sub(back, ARG), T.sub(ARG, back), T.sub(T.const(lo), jstar)] + \
                           [T.substitute(x, {T.unroot(J_): jstar}) for x in predc[0]]
                    for facts in LA.closure(base, [v1, v2, jstar, back] + want, steps=True):
                        if LA.infeasible(facts):
                            continue
                        nn += 1
                        if not all(LA.entails_le0(facts, x) for x in want):
                            goals_ok, wit = False, (g1, v1, g2, v2)
                            break
                    if not goals_ok:
                        break
                if not goals_ok:
                    break
            _judge(rep, 'STEP-LAW', f'STEP-LAW:{name}:complete', where, m['steps'], (goals_ok, nn if goals_ok else wit),
                   f'every delta >= {first} with number_arrivals(delta - 1) < number_arrivals(delta) equals {T.show(f)} for j = (delta - ({T.show(c0)})) / {T.show(per)}, which is >= {lo} and passes the filter',
                   'every point of increase is yielded', 'a missing step silently drops an offset the analyses must examine (unsafe)')
            # (c) strictly increasing: f(j + 1) > f(j), and the generator stays above the leading constants
            nxt = T.add(LA.times(T.add(J_, T.const(1)), per), c0)
            r = LA.holds_all([([], T.sub(nxt, f))], hyp, lambda v: [T.sub(v, T.const(1))])
            r2 = LA.holds_all([([], f)], hyp, lambda v: [T.sub(v, T.const(first))]) if consts else (True, 0)
            _judge(rep, 'STEP-LAW', f'STEP-LAW:{name}:increasing', where, m['steps'], (r[0] and r2[0], (r[1] + r2[1]) if (r[0] and r2[0]) else (r[1] if not r[0] else r2[1])),
                   f'{T.show(f)} grows strictly with j' + (f' and is >= {first} (above the leading {consts})' if consts else ''),
                   'strictly increasing sequence', 'the analyses merge and dedup step sequences assuming sorted input')
            n += 3
        except AnchorMissing as ex:
            rep.bad('ANCHOR', f'ANCHOR:STEP-LAW:{name}', m['steps'], ex.what, fn=m['steps'], why='fail closed')
    return n


# ------------------------------------------------------------------ job-cost models (C14)

COST_TRAIT = 'wcet::JobCostModel'


def _impl_methods(crate, trait):
    out = []
    for imp in crate.impls:
        if imp.get('trait') != trait or imp.get('mac'):
            continue        # the auto_impl forwarding impls (&T, Box<T>, Rc<T>) delegate every method
        out.append((imp.get('self_ty'), {it['name']: it['path'] for it in imp['items']}, imp))
    return out


def _term_of(crate, path):
    b = crate.body(path)
    if b is None:
        raise AnchorMissing(f'{path}: not found')
    ev = Evaluator(crate)
    return T.unroot(ev.eval_entry(b)), b, ev


def check_cost_laws(rep, crate):
    """C14: cost_of_jobs(0) = 0; cost_of_jobs(n) is the sum of the first n items of job_cost_iter; least_wcet(n) is no
    larger than any of these items -- decided per implementation from the shape of its three methods"""
    n = 0
    dflt_cost, bdc, _ = _term_of(crate, COST_TRAIT + '::cost_of_jobs')
    dflt_least, bdl, _ = _term_of(crate, COST_TRAIT + '::least_wcet')
    items = T.call(COST_TRAIT + '::job_cost_iter', P0)
    want_cost = ('sum', ('take', ('elems', items), ARG))
    want_least = ('optor', ('minof', ('take', ('elems', items), ARG)), T.const(0))
    if T.same(dflt_cost, want_cost):
        rep.ok('COST-SUM', 'COST-SUM:default', loc(bdc.raw), 'the default cost_of_jobs(n) is sum(job_cost_iter().take(n)): the law by definition (in particular 0 for n = 0, non-decreasing for non-negative items)', fn=COST_TRAIT + '::cost_of_jobs')
    else:
        rep.bad('COST-SUM', 'COST-SUM:default', loc(bdc.raw), f'the default cost_of_jobs is {T.show(dflt_cost)[:200]}', T.show(want_cost), fn=COST_TRAIT + '::cost_of_jobs',
                why='implementations that rely on the default (Multiframe) inherit it')
    if T.same(dflt_least, want_least):
        rep.ok('COST-LEAST', 'COST-LEAST:default', loc(bdl.raw), 'the default least_wcet(n) is the minimum of job_cost_iter().take(n) (0 if empty): the law by definition', fn=COST_TRAIT + '::least_wcet')
    else:
        rep.bad('COST-LEAST', 'COST-LEAST:default', loc(bdl.raw), f'the default least_wcet is {T.show(dflt_least)[:200]}', T.show(want_least), fn=COST_TRAIT + '::least_wcet',
                why='a least_wcet above some job cost makes the blocking/self-interference terms that subtract it optimistic')
    n += 2
    for self_ty, methods, imp in _impl_methods(crate, COST_TRAIT):
        short = self_ty.split('::')[-1]
        try:
            if 'job_cost_iter' not in methods:
                raise AnchorMissing(f'{self_ty}: no job_cost_iter')
            it, bit, _ = _term_of(crate, methods['job_cost_iter'])
            where = loc(bit.raw)
            # ---- COST-SUM / COST-ZERO
            if 'cost_of_jobs' not in methods:
                rep.ok('COST-SUM', f'COST-SUM:{short}', where, 'cost_of_jobs is not overridden: the default sums job_cost_iter().take(n)', fn=methods['job_cost_iter'])
                rep.ok('COST-ZERO', f'COST-ZERO:{short}', where, 'cost_of_jobs is not overridden: take(0) is empty, the sum is 0', fn=methods['job_cost_iter'])
            else:
                cpath = methods['cost_of_jobs']
                zero = LA.cases_of(fn_cases(crate, cpath, {P1: T.const(0)})[0])
                if zero is None:
                    raise AnchorMissing(f'{cpath}: not piecewise linear at n = 0')
                _judge(rep, 'COST-ZERO', f'COST-ZERO:{short}', loc(crate.body(cpath).raw), cpath, LA.equal_under(zero, [([], T.const(0))], []),
                       'cost_of_jobs(0) = 0', 'no jobs cost nothing', 'every request bound at an empty interval relies on it')
                own = lambda k: T.root(T.call(COST_TRAIT + '::cost_of_jobs', P0, T.unroot(T.as_lin(k))))
                d = 0
                tele = ('map', ('range', T.const(1), ('inf',)), ('lam', d, T.sub(own(T.root(T.bv(d))), own(T.sub(T.root(T.bv(d)), T.const(1))))))
                ctop, bc, _ = _term_of(crate, cpath)
                if isinstance(it, tuple) and it and it[0] == 'repeat':
                    c = T.as_lin(it[1])
                    if T.same(ctop, T.unroot(T.mul(c, ARG))):
                        rep.ok('COST-SUM', f'COST-SUM:{short}', where, f'job_cost_iter repeats {T.show(c)} and cost_of_jobs(n) = {T.show(c)} * n: the sum of the first n items', fn=cpath)
                    else:
                        rep.bad('COST-SUM', f'COST-SUM:{short}', where, f'job_cost_iter repeats {T.show(c)} but cost_of_jobs(n) is {T.show(ctop)[:160]}', f'{T.show(c)} * n', fn=cpath,
                                why='the two views of one cost model disagree: RBF::service_needed and RBF::job_cost_iter then bound different demands')
                elif T.same(it, tele):
                    rep.ok('COST-SUM', f'COST-SUM:{short}', where, 'job_cost_iter yields cost_of_jobs(n) - cost_of_jobs(n - 1) for n = 1, 2, ..: the first n items telescope to '
                           'cost_of_jobs(n) - cost_of_jobs(0), and cost_of_jobs(0) = 0 (COST-ZERO)', fn=cpath)
                else:
                    rep.bad('COST-SUM', f'COST-SUM:{short}', where, f'job_cost_iter is {T.show(it)[:200]}', 'repeat(c) with cost_of_jobs = c * n, or the telescoping differences of cost_of_jobs', fn=cpath,
                            why='cannot relate the items to cost_of_jobs (fail closed)')
            # ---- COST-LEAST
            if 'least_wcet' not in methods:
                rep.ok('COST-LEAST', f'COST-LEAST:{short}', where, 'least_wcet is not overridden: the default takes the minimum of the first n items', fn=methods['job_cost_iter'])
            else:
                lpath = methods['least_wcet']
                ltop, bl, _ = _term_of(crate, lpath)
                wl = loc(bl.raw)
                if isinstance(it, tuple) and it and it[0] == 'repeat':
                    c = T.as_lin(it[1])
                    lc = pure_lin_cases(crate, lpath)
                    if lc is None:
                        raise AnchorMissing(f'{lpath}: not a closed form')
                    # the property asks for least_wcet(n) <= every one of the first n items (n >= 1: there is an item)
                    r = LA.holds_all(lc, [T.sub(T.const(1), ARG)], lambda v: [T.sub(c, v)])
                    if r[0]:
                        rep.ok('COST-LEAST', f'COST-LEAST:{short}', wl, f'every item is {T.show(c)}; least_wcet(n) <= {T.show(c)} for every n >= 1: proved ({r[1]} case(s)); it is {T.show(ltop)[:80]}', fn=lpath)
                    else:
                        rep.bad('COST-LEAST', f'COST-LEAST:{short}', wl, f'every item is {T.show(c)} but least_wcet(n) is {T.show(ltop)[:160]}, not provably <= {T.show(c)}', f'at most {T.show(c)} for n >= 1', fn=lpath,
                                why='a least_wcet above some job cost is optimistic where it is subtracted')
                elif isinstance(it, tuple) and it and it[0] == 'cycle':
                    src = it[1]
                    if T.same(ltop, ('optor', ('minof', ('take', src, ARG)), T.const(0))) or ltop == T.const(0):
                        rep.ok('COST-LEAST', f'COST-LEAST:{short}', wl, f'items cycle through {T.show(src)}; least_wcet(n) is the minimum of its first n entries (all of them once n exceeds its length), 0 if empty', fn=lpath)
                    else:
                        rep.bad('COST-LEAST', f'COST-LEAST:{short}', wl, f'items cycle through {T.show(src)} but least_wcet(n) is {T.show(ltop)[:160]}', 'min of the first n entries, 0 if none', fn=lpath,
                                why='a least_wcet above some job cost is optimistic where it is subtracted')
                else:
                    # table-driven model: decided on the recorded prefix -- cost_of_jobs(k) = table[k - 1] for 1 <= k <= len,
                    # and least_wcet(n) is the minimum of the first min(len, n) differences of the table
                    cpath = methods.get('cost_of_jobs')
                    cs = LA.cases_of(fn_cases(crate, cpath)[0]) if cpath else None
                    tables = [x for g, v in (cs or []) for x in T.subterms(v) if isinstance(x, tuple) and x and x[0] == 'idx']
                    bases = []
                    for x in tables:
                        if x[1] not in bases:
                            bases.append(x[1])
                    if cs is None or len(bases) != 1:
                        raise AnchorMissing(f'{cpath}: not a lookup in one table')
                    tbl = bases[0]
                    ln = T.root(('len', tbl))
                    entry = T.root(('idx', tbl, T.sub(ARG, T.const(1))))
                    r = LA.holds_all(cs, [T.sub(T.const(1), ARG), T.sub(ARG, ln)], lambda v: [T.sub(v, entry), T.sub(entry, v)], extra_terms=[entry])
                    if r[0]:
                        rep.ok('COST-PREFIX', f'COST-PREFIX:{short}', loc(crate.body(cpath).raw),
                               f'for 1 <= n <= len: cost_of_jobs(n) = {T.show(tbl)}[n - 1]: proved for all inputs ({r[1]} feasible case combination(s))', fn=cpath)
                    else:
                        g, v, _, goal = r[1]
                        rep.bad('COST-PREFIX', f'COST-PREFIX:{short}', loc(crate.body(cpath).raw), f'in the case [{_show_case(g, v)[:300]}] cost_of_jobs(n) = table[n - 1] is not entailed',
                                'the recorded prefix is returned unchanged', fn=cpath, why='the table holds the observed / specified cumulative costs; returning anything else for n within the prefix is wrong in either direction')
                    first = T.root(('idx', tbl, T.const(0)))
                    d = 0
                    diffs = ('map', ('range', T.const(1), T.tmin(ln, ARG)), ('lam', d, T.sub(T.root(('idx', tbl, T.root(T.bv(d)))), T.root(('idx', tbl, T.sub(T.root(T.bv(d)), T.const(1)))))))
                    want = T.ite(T.tand(T.cmp('Ge', ln, T.const(1)), T.cmp('Ge', ARG, T.const(1))), T.tmin(first, T.root(('minof', diffs))), T.const(0))
                    def unmut(t):
                        # borrow() and borrow_mut() of the cache cell give the same table
                        if isinstance(t, tuple):
                            if len(t) == 3 and t[0] == 'call' and isinstance(t[1], str) and t[1].endswith('borrow_mut'):
                                return ('call', t[1][:-len('_mut')], tuple(unmut(a) for a in t[2]))
                            return tuple(unmut(x) for x in t)
                        return t
                    from .summary import term_case_lines
                    if term_case_lines(unmut(ltop)) == term_case_lines(unmut(want)) or LA.terms_equal(T.canon(unmut(ltop), True), T.canon(unmut(want), True)):
                        rep.ok('COST-LEAST', f'COST-LEAST:{short}', wl, 'least_wcet(n) = min(table[0], min over 1 <= i < min(len, n) of table[i] - table[i-1]): with COST-PREFIX and the '
                               'telescoping items these are exactly the first min(len, n) items (beyond the prefix the items repeat periodically: not decided here)', fn=lpath)
                    else:
                        rep.bad('COST-LEAST', f'COST-LEAST:{short}', wl, f'least_wcet(n) is {T.show(T.canon(ltop, True))[:300]}', T.show(T.canon(want, True))[:300], fn=lpath,
                                why='a least_wcet above some job cost is optimistic where it is subtracted')
                    n += 1
            n += 3
        except AnchorMissing as ex:
            rep.bad('ANCHOR', f'ANCHOR:COST:{short}', self_ty, ex.what, fn=self_ty, why='fail closed')
    return n


# ------------------------------------------------------------------ request bounds (C16)

RB = 'demand::RequestBound'


def check_demand_laws(rep, crate):
    """C16: the default methods define service_needed / service_needed_by_n_jobs from job_cost_iter; RBF feeds one job
    count to the three views of its cost model; composites merge exactly the items their sums are taken over"""
    n = 0
    P2 = T.param(2)
    items = ('elems', T.call(RB + '::job_cost_iter', P0, P1))
    for meth, want, law in (
            ('service_needed', ('sum', items), 'the default service_needed(delta) is the sum of job_cost_iter(delta): "job_cost_iter sums to it" by definition'),
            ('service_needed_by_n_jobs', ('sum', ('take', ('rev', ('sorted', items)), T.as_lin(T.root(P2)))),
             'the default service_needed_by_n_jobs(delta, n) is the sum of the n largest items of job_cost_iter(delta): hence non-decreasing in n '
             '(a longer prefix of non-negative items), never above service_needed (a sub-multiset), equal to it once n reaches the number of items')):
        t, b, _ = _term_of(crate, f'{RB}::{meth}')
        if T.same(t, want):
            rep.ok('DEMAND-DEF', f'DEMAND-DEF:{meth}', loc(b.raw), law, fn=f'{RB}::{meth}')
        else:
            rep.bad('DEMAND-DEF', f'DEMAND-DEF:{meth}', loc(b.raw), f'the default {meth} is {T.show(T.canon(t))[:220]}', T.show(T.canon(want)), fn=f'{RB}::{meth}',
                    why='every request bound that does not override it inherits the wrong demand')
        n += 1
    for self_ty, methods, imp in _impl_methods(crate, RB):
        short = self_ty.split('::')[-1].split('<')[0]
        try:
            it, bit, _ = _term_of(crate, methods['job_cost_iter'])
            where = loc(bit.raw)
            if 'service_needed_by_n_jobs' in methods:
                rep.bad('DEMAND-DEF', f'DEMAND-DEF:{short}:override', where, f'{self_ty} overrides service_needed_by_n_jobs', 'the default (sum of the n largest items)', fn=methods['service_needed_by_n_jobs'],
                        why='an override must be shown to equal the sum of the n largest job costs (fail closed)')
            sn, bsn, _ = _term_of(crate, methods['service_needed'])
            lw, blw, _ = _term_of(crate, methods['least_wcet_in_interval'])
            if isinstance(it, tuple) and it and it[0] == 'take':
                # RBF: the first N items of the cost model
                N = T.as_lin(it[2])
                src = it[1]
                model = None
                if isinstance(src, tuple) and src and src[0] == 'elems' and isinstance(src[1], tuple) and src[1][0] == 'call' and src[1][1] == COST_TRAIT + '::job_cost_iter':
                    model = src[1][2][0]
                want_sn = T.call(COST_TRAIT + '::cost_of_jobs', model, T.unroot(N)) if model is not None else None
                want_lw = T.call(COST_TRAIT + '::least_wcet', model, T.unroot(N)) if model is not None else None
                isN = isinstance(T.unroot(N), tuple) and T.unroot(N)[0] == 'call' and T.unroot(N)[1] == 'arrival::ArrivalBound::number_arrivals' and T.unroot(N)[2][1:] == (P1,)
                if model is not None and isN and T.same(sn, want_sn) and T.same(lw, want_lw):
                    rep.ok('DEMAND-RBF', f'DEMAND-RBF:{short}', where, f'with N = {T.show(N)}: service_needed = cost_of_jobs(N), job_cost_iter = the first N items of the cost model, '
                           'least_wcet_in_interval = least_wcet(N): by COST-SUM / COST-LEAST (C14) the items sum to service_needed and none is below the least WCET', fn=methods['service_needed'])
                else:
                    rep.bad('DEMAND-RBF', f'DEMAND-RBF:{short}', where, f'service_needed = {T.show(sn)[:120]}; job_cost_iter = {T.show(it)[:120]}; least_wcet_in_interval = {T.show(lw)[:120]}',
                            'cost_of_jobs(N), take(job_cost_iter, N), least_wcet(N) for the one N = number_arrivals(delta)', fn=methods['service_needed'],
                            why='the three views of the demand in an interval disagree on the number of jobs or on the cost model')
            elif isinstance(it, tuple) and it and it[0] in ('kmerge', 'merge', 'chain', 'flatten'):
                inner = it[1]
                coll = None
                if isinstance(inner, tuple) and inner and inner[0] == 'map' and inner[2][0] == 'lam' and isinstance(inner[1], tuple) and inner[1][0] == 'elems':
                    d = inner[2][1]
                    if T.unroot(inner[2][2]) == T.call(RB + '::job_cost_iter', T.bv(d), P1):
                        coll = inner[1]
                sum_coll = None
                if isinstance(sn, tuple) and sn and sn[0] == 'sum' and isinstance(sn[1], tuple) and sn[1][0] == 'map' and isinstance(sn[1][1], tuple) and sn[1][1][0] == 'elems':
                    sum_coll = sn[1][1]
                if coll is not None and coll == sum_coll:
                    rep.ok('DEMAND-AGG', f'DEMAND-AGG:{short}', where, f'job_cost_iter merges (multiset union, no item dropped or repeated) the job_cost_iter(delta) of every element of {T.show(coll)}, '
                           'the collection service_needed sums over: the items sum to service_needed', fn=methods['job_cost_iter'])
                else:
                    rep.bad('DEMAND-AGG', f'DEMAND-AGG:{short}', where, f'job_cost_iter = {T.show(it)[:200]}; service_needed = {T.show(sn)[:160]}',
                            'a merge of the components\' job_cost_iter(delta) over the same collection', fn=methods['job_cost_iter'],
                            why='items are dropped, repeated or taken over a different interval: service_needed_by_n_jobs no longer relates to service_needed')
            else:
                rep.bad('DEMAND-AGG', f'DEMAND-ITEMS:{short}', where, f'job_cost_iter = {T.show(it)[:200]}', 'take(cost model items, N) or a merge of component items', fn=methods['job_cost_iter'],
                        why='cannot relate the items to service_needed (fail closed)')
            n += 1
        except (AnchorMissing, KeyError) as ex:
            rep.bad('ANCHOR', f'ANCHOR:DEMAND:{short}', self_ty, str(getattr(ex, 'what', ex)), fn=self_ty, why='fail closed')
    return n
