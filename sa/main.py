"""Entry point:  python3 -m sa.main <property> [--tier quick|thorough] [--explain <replay>] [--repo DIR]

Exit codes: 0 property's clauses hold; 1 violation (VIOLATION line printed);
2 infrastructure error (never on the unchanged tree)."""

import argparse
import json
import os
import sys
import time
import traceback

from . import extract
from .facts import Crate
from .report import Report, AnchorMissing

VERIF = os.path.dirname(os.path.dirname(os.path.abspath(__file__)))


class Ctx:
    """facts of the tree under analysis, extracted on demand (once per run and configuration)"""

    def __init__(self, repo, tier, seed):
        self.repo = repo
        self.tier = tier
        self.seed = seed
        self._crates = {}
        self._fix = None
        self.extract_s = 0.0

    def crate(self, cfg='dbg'):
        if cfg not in self._crates:
            path, dt = extract.extract_repo(self.repo, cfg)
            self.extract_s += dt
            try:
                c = Crate(path)
            finally:
                try:
                    os.remove(path)
                except OSError:
                    pass
            if c.name != 'response_time_analysis':
                raise extract.InfraError('facts are for crate ' + c.name)
            self._crates[cfg] = c
        return self._crates[cfg]

    def fixtures(self, cfg='dbg'):
        if self._fix is None:
            self._fix = {}
        if cfg not in self._fix:
            path, dt = extract.extract_fixtures(cfg)
            self.extract_s += dt
            try:
                self._fix[cfg] = Crate(path)
            finally:
                try:
                    os.remove(path)
                except OSError:
                    pass
        return self._fix[cfg]


def run(prop, tier, seed, repo):
    from . import props
    rep = Report(prop, tier, seed)
    ctx = Ctx(repo, tier, seed)
    try:
        from . import linarith
        broken = linarith.selftest()
        if broken:
            print(f'INFRASTRUCTURE-ERROR property={prop}: the equality prover fails its own controls: {broken}')
            return 2
        fn = props.PROPS.get(prop)
        if fn is None:
            print(f'unknown or unclaimed property {prop}')
            return 2
        explanation = fn(ctx, rep)
        if tier == 'thorough':
            thorough_selftest(prop, repo, rep)
        rep.extra['extraction_s'] = round(ctx.extract_s, 2)
        rep.extra['facts'] = {cfg: dict(bodies=len(c.body_list), debug_assertions=c.debug_assertions)
                              for cfg, c in ctx._crates.items()}
        return rep.finish(explanation)
    except extract.InfraError as ex:
        print(f'INFRASTRUCTURE-ERROR property={prop}: {ex}')
        return 2
    except Exception:
        traceback.print_exc()
        print(f'INFRASTRUCTURE-ERROR property={prop}: internal error in the rule engine')
        return 2


def _eval_mutant(args):
    from . import mutate
    mut, repo, prop = args
    m = dict(mut)
    if m['kind'] == 'breaking':
        # only this property's verdict matters here
        m['props'] = [prop] if prop in m.get('props', []) else []
        m['silent'] = [prop] if prop in mut.get('silent', []) else []
        return mutate.evaluate(m, repo, [prop])
    return mutate.evaluate(m, repo, [prop])


def thorough_selftest(prop, repo, rep):
    """thorough tier: replay every catalogue mutant and confirmed seeded change that concerns this property, and every
    behaviour-preserving negative control, against scratch copies of the *current* tree.  Sensitivity / specificity of
    the rules is measured and recorded; it never changes the verdict on the tree itself."""
    from . import mutate
    from concurrent.futures import ProcessPoolExecutor
    anchors = set()
    for line in open(os.path.join(VERIF, 'properties.jsonl')):
        pj = json.loads(line)
        if pj['id'] == prop:
            anchors = set(pj['anchors']['files'])
    muts = []
    for m in mutate.load_catalogue() + mutate.seeded() + mutate.refactorings():
        if prop in m.get('props', []) or prop in m.get('silent', []):
            muts.append(m)
        elif m['kind'] == 'equivalent' and (mutate.touched_files(m) & anchors):
            # negative controls that touch a file this property is anchored in
            muts.append(m)
    with ProcessPoolExecutor(max_workers=min(12, max(1, len(muts)))) as ex:
        results = list(ex.map(_eval_mutant, [(m, repo, prop) for m in muts]))
    summary = dict(replayed=len(results), detected=0, missed=[], silent_as_expected=0, overreported=[], equivalent_silent=0,
                   false_alarms=[], known_limit_alarms=[], skipped=[])
    samples = []
    for m, r in zip(muts, results):
        st = r['status']
        if st == 'skipped':
            summary['skipped'].append(f"{r['id']}: {r.get('reason', '')[:80]}")
            continue
        if r['kind'] == 'equivalent':
            if st == 'silent':
                summary['equivalent_silent'] += 1
            elif m.get('known_limit'):
                summary['known_limit_alarms'].append(r['id'])
            else:
                summary['false_alarms'].append(r['id'])
        else:
            expect_fire = prop in m.get('props', [])
            fired = prop in r.get('fired', {})
            if expect_fire and fired:
                summary['detected'] += 1
            elif expect_fire:
                summary['missed'].append(r['id'])
            elif fired:
                summary['overreported'].append(r['id'])
            else:
                summary['silent_as_expected'] += 1
        if len(samples) < 12:
            samples.append(dict(mutant=r['id'], kind=r['kind'], note=m.get('note', '')[:100], status=st,
                                reported=r.get('fired', {}).get(prop, [])[:3]))
    rep.extra['mutant_selftest'] = summary
    rep.extra['mutant_samples'] = samples
    rep.extra['anchored_mutation_sweep'] = anchored_sweep(prop, repo, anchors)
    for mid in summary['missed']:
        print(f'SELFTEST-WARNING property={prop}: breaking mutant {mid} was not reported (sensitivity gap; verdict on the tree unaffected)')
    for mid in summary['false_alarms'] + summary['overreported']:
        print(f'SELFTEST-WARNING property={prop}: behaviour-preserving / out-of-scope mutant {mid} was reported (specificity gap; verdict on the tree unaffected)')
    print(f"{prop}: thorough self-test: {summary['detected']} breaking mutants/seeds detected, {len(summary['missed'])} missed, "
          f"{summary['equivalent_silent']} negative controls silent, {len(summary['false_alarms'])} false alarms, "
          f"{len(summary['known_limit_alarms'])} alarms on documented-limit refactorings, {len(summary['skipped'])} skipped")


def _eval_sweep(args):
    m, repo, prop = args
    import shutil
    from . import mutate
    d = mutate.make_copy(repo)
    try:
        with open(os.path.join(d, m['file']), 'w') as f:
            f.write(m['content'])
        res = mutate.run_props(d, [prop])
        code, keys = res[prop]
        elsewhere = []
        if code == 0:
            # not reported by this property's check: is it reported by the check of another property?
            from . import props as P
            others = mutate.run_props(d, [q for q in sorted(P.PROPS) if q != prop])
            elsewhere = sorted(q for q, (c, _) in others.items() if c == 1)
        return dict(id=m['id'], file=m['file'], line=m['line'], op=m['op'], old=m['old'], new=m['new'], text=m['text'],
                    status={0: 'survived', 1: 'reported', 2: 'no-compile'}[code], keys=keys[:3], elsewhere=elsewhere)
    finally:
        shutil.rmtree(d, ignore_errors=True)


def anchored_sweep(prop, repo, anchors):
    """thorough tier, part 2: every single-token mutant (sa/sweep.py) of the files this property is anchored in, run against
    this property's check on a scratch copy.  Reported mutants measure sensitivity; survivors are matched against the
    hand-triaged list mutants/sweep_triage.json (equivalent edit / does not concern this property); untriaged survivors
    are listed in the evidence.  Never changes the verdict on the tree itself."""
    from . import sweep
    from concurrent.futures import ProcessPoolExecutor
    muts = sweep.enumerate_mutants(repo, sorted(anchors), sweep.OPS + sweep.OPS2)
    with ProcessPoolExecutor(max_workers=12) as ex:
        res = list(ex.map(_eval_sweep, [(m, repo, prop) for m in muts], chunksize=2))
    triage = {}
    tp = os.path.join(VERIF, 'mutants', 'sweep_triage.json')
    if os.path.exists(tp):
        triage = json.load(open(tp))
    comp = [r for r in res if r['status'] != 'no-compile']
    rep_ = [r for r in comp if r['status'] == 'reported']
    surv = [r for r in comp if r['status'] == 'survived']
    tri, untri, other = [], [], []
    for r in surv:
        t = triage.get(r['id'])
        if r.get('elsewhere'):
            other.append(r)     # the edit is in a part of the file that another property's clauses cover
        elif t:
            tri.append(r)
        else:
            untri.append(r)
    out = dict(files=sorted(anchors), mutants=len(res), compiling=len(comp), reported=len(rep_), survived=len(surv),
               reported_by_another_property=len(other), survived_triaged=len(tri),
               triaged=[f"{r['file']}:{r['line']} {r['old']!r}->{r['new']!r}: {triage[r['id']].get('verdict')}: {triage[r['id']].get('reason', '')[:120]}" for r in tri][:40],
               untriaged_survivors=[f"{r['file']}:{r['line']} [{r['op']}] {r['old']!r}->{r['new']!r} :: {r['text'][:90]}" for r in untri][:60],
               by_operator={})
    for r in comp:
        o = out['by_operator'].setdefault(r['op'], dict(reported=0, survived=0))
        o['reported' if r['status'] == 'reported' else 'survived'] += 1
    print(f"{prop}: anchored mutation sweep: {len(comp)} compiling single-token mutants in {len(anchors)} anchored file(s): "
          f"{len(rep_)} reported by this check, {len(other)} only by another property's check, {len(tri)} survive every check and are triaged "
          f"(equivalent / not a property violation), {len(untri)} survive every check untriaged")
    return out


def explain(prop, path):
    with open(path) as f:
        v = json.load(f)
    print(f"property {v.get('property')} rule {v.get('rule')} instance {v.get('key')}")
    for k in ('where', 'fact', 'expected', 'direction', 'why'):
        if v.get(k):
            print(f'  {k}: {v[k]}')
    print('re-run the check to see whether the instance is still present on the current tree')
    return 0


def main():
    ap = argparse.ArgumentParser()
    ap.add_argument('prop')
    ap.add_argument('--tier', default=os.environ.get('VERIF_TIER', 'quick'))
    ap.add_argument('--explain')
    ap.add_argument('--repo', default=os.environ.get('RTA_REPO', '/repo'))
    a = ap.parse_args()
    if a.tier not in ('quick', 'thorough'):
        a.tier = 'quick'
    seed = int(os.environ.get('VERIF_SEED', '0') or 0)
    if os.path.realpath(a.repo) != '/repo':
        # scratch copies (mutants, seeded changes) never touch the committed evidence
        os.environ.setdefault('RTA_EVIDENCE_DIR', os.path.join(VERIF, '.cache', 'scratch-evidence'))
    if a.explain:
        sys.exit(explain(a.prop, a.explain))
    sys.exit(run(a.prop, a.tier, seed, a.repo))


if __name__ == '__main__':
    main()
