"""Re-extract facts from a source tree with the rta-facts driver.

Every check calls this first; nothing is cached between runs.  A warm cargo
target directory would skip the driver, so the crate's own fingerprints are
deleted first, and the facts file must have been rewritten by this very run
(fail closed otherwise).
"""

import fcntl
import glob
import os
import shutil
import subprocess
import time

VERIF = os.path.dirname(os.path.dirname(os.path.abspath(__file__)))
CACHE = os.path.join(VERIF, '.cache')
DRIVER = os.path.join(VERIF, 'rta-facts', 'target', 'debug', 'rta-facts')

CONFIGS = {
    # what `cargo test` / a debug build sees
    'dbg': '-Awarnings',
    # what an optimised release build sees: no debug assertions, wrapping arithmetic
    'rel': '-Awarnings -Cdebug-assertions=off -Coverflow-checks=off',
}


class InfraError(Exception):
    pass


def _sysroot():
    out = subprocess.run(['rustc', '+nightly', '--print', 'sysroot'], capture_output=True, text=True)
    if out.returncode != 0:
        raise InfraError('nightly toolchain not available: ' + out.stderr)
    return out.stdout.strip()


def build_driver():
    env = dict(os.environ, CARGO_NET_OFFLINE='true')
    r = subprocess.run(['cargo', 'build', '--offline'], cwd=os.path.join(VERIF, 'rta-facts'),
                       capture_output=True, text=True, env=env)
    if r.returncode != 0 or not os.path.exists(DRIVER):
        raise InfraError('cannot build rta-facts driver:\n' + r.stderr[-4000:])


def extract(src_dir, crate_name, pkg_glob, cfg, tag, lib_only=True):
    """Run the driver over `src_dir` (a cargo package) in configuration `cfg`.

    Returns the path of the facts file written by this run."""
    if not os.path.exists(DRIVER):
        build_driver()
    os.makedirs(os.path.join(CACHE, 'facts'), exist_ok=True)
    target = os.path.join(CACHE, f'target-{tag}-{cfg}')
    out = os.path.join(CACHE, 'facts', f'{tag}-{cfg}-{os.getpid()}.json')
    lock_path = os.path.join(CACHE, f'lock-{tag}-{cfg}')
    with open(lock_path, 'w') as lock:
        fcntl.flock(lock, fcntl.LOCK_EX)
        for fp in glob.glob(os.path.join(target, 'debug', '.fingerprint', pkg_glob)):
            shutil.rmtree(fp, ignore_errors=True)
        if os.path.exists(out):
            os.remove(out)
        env = dict(os.environ)
        env.update({
            'LD_LIBRARY_PATH': os.path.join(_sysroot(), 'lib') + ':' + env.get('LD_LIBRARY_PATH', ''),
            'RUSTFLAGS': CONFIGS[cfg],
            'RUSTC_WORKSPACE_WRAPPER': DRIVER,
            'RTA_FACTS_CRATES': crate_name,
            'RTA_FACTS_OUT': out,
            'CARGO_TARGET_DIR': target,
            'CARGO_NET_OFFLINE': 'true',
        })
        env.pop('RUSTC_WRAPPER', None)
        t0 = time.time()
        cmd = ['cargo', '+nightly', 'check', '--offline', '--quiet']
        if lib_only:
            cmd.append('--lib')
        r = subprocess.run(cmd, cwd=src_dir, capture_output=True, text=True, env=env)
        dt = time.time() - t0
    if r.returncode != 0:
        raise InfraError(f'cargo check failed in {src_dir} ({cfg}):\n' + r.stderr[-6000:])
    if not os.path.exists(out):
        raise InfraError(f'driver did not write facts for {crate_name} ({cfg}); stderr:\n' + r.stderr[-2000:])
    return out, dt


def extract_repo(repo, cfg):
    return extract(repo, 'response_time_analysis', 'response-time-analysis-*', cfg, 'repo')


def extract_fixtures(cfg='dbg'):
    return extract(os.path.join(VERIF, 'fixtures'), 'rta_fixtures', 'rta-fixtures-*', cfg, 'fix')
