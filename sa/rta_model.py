"""Extraction of the busy-window model of the nine dedicated-processor analyses
(4 FP, 4 EDF, FIFO) from their canonical terms, and the equation tables the
extracted facts are compared with.

Everything is recovered by *flow*: which closure reaches the `workload`
argument of fixed_point::search, which iterator reaches max_response_time, what
the items of that iterator are mapped through.  Names of locals play no role;
parameters are identified by position and public fields by name (both are
public API).
"""

from . import term as T
from .evalr import Evaluator
from .report import AnchorMissing

SN = 'demand::RequestBound::service_needed'
STEPS_RB = 'demand::RequestBound::steps_iter'
SEARCH = 'fixed_point::search'
MAXRT = 'fixed_point::max_response_time'
DEDICATED = T.struct('supply::dedicated::Dedicated', {})

A = T.var('A')      # the offset
# the fixed-point variable: search only ever calls the workload closure with values >= 1, which is encoded by
# writing it as x + 1 over a non-negative root x (so `(d + r).saturating_sub(1)` and `d + r - 1` are one term)
X = T.add(T.var('x'), T.const(1))
O = T.var('o')      # "for each other/interfering task"
DELTA = T.var('δ')  # an item of steps_iter


def P(i, *fields):
    t = T.param(i)
    for f in fields:
        t = T.fld(t, f)
    return t


def RBF(ab, w):
    return T.struct('demand::rbf::RBF', {'arrival_bound': ab, 'wcet': w})


def sn(r, d):
    return T.root(T.call(SN, T.unroot(r), T.unroot(d)))


def n(k):
    return T.const(k)


def plus(*xs):
    acc = T.const(0)
    for x in xs:
        acc = T.add(acc, x)
    return acc


def sum_over(coll, body_of_elem):
    """sum over the elements of `coll`; body_of_elem is written over O"""
    body = T.substitute(body_of_elem, {O: T.bv(0)})
    return T.root(('sum', ('map', ('elems', coll), ('lam', 0, body))))


# ---------------------------------------------------------------- spec tables
#
# aRTA (Bozhko & Brandenburg, ECRTS'20) Theorem 31 as instantiated in Prosa
# (links in the sources of /repo):
#   L        least x>0 with  BW(x) <= x
#   per A    least x>0 with  OFF_A(x) <= x ,  R(A) = x - A + rem
#   result   max over A in steps(rbf_t)-1, A < L
# EDF adds the deadline-shifted steps of the other tasks and blocking B(A).

def fp_spec(kind):
    hp, limit = P(1), P(2)
    if kind == 'P':
        tua, B, rem = P(0), n(0), n(0)
    elif kind == 'NP':
        tua, B, rem = RBF(P(0, 'arrivals'), P(0, 'wcet')), P(0, 'blocking_bound'), T.sub(P(0, 'wcet', 'wcet'), n(1))
    elif kind == 'LP':
        tua, B, rem = RBF(P(0, 'arrivals'), P(0, 'wcet')), P(0, 'blocking_bound'), T.sub(P(0, 'last_np_segment'), n(1))
    elif kind == 'FNP':
        tua, B, rem = P(0, 'rbf'), P(0, 'blocking_bound'), n(0)
    interf = lambda at: sum_over(hp, sn(O, at))
    return dict(
        family='FP', kind=kind, tua=tua, others=hp, limit=limit, blocking=B, rem=rem,
        BW=plus(B, interf(X), sn(tua, X)),
        OFF=plus(B, sn(tua, T.add(A, n(1))), T.neg(rem), interf(X)),
        result_sat=False,
        components=[dict(foreach=None, source=tua, shift=T.sub(DELTA, n(1)))],
        own_use_shift=n(1),
    )


def edf_spec(kind):
    ot, limit = P(1), P(2)
    Dt = P(0, 'deadline')
    Do = T.fld(O, 'deadline')
    if kind == 'P':
        tua, orbf, rem, seg = P(0, 'rbf'), T.fld(O, 'rbf'), n(0), None
    elif kind == 'NP':
        tua, orbf = RBF(P(0, 'arrivals'), P(0, 'wcet')), RBF(T.fld(O, 'arrivals'), T.fld(O, 'wcet'))
        rem, seg = T.sub(P(0, 'wcet', 'wcet'), n(1)), T.fld(T.fld(O, 'wcet'), 'wcet')
    elif kind == 'LP':
        tua, orbf = RBF(P(0, 'arrivals'), P(0, 'wcet')), T.fld(O, 'rbf')
        rem, seg = T.sub(P(0, 'last_np_segment'), n(1)), T.fld(O, 'max_np_segment')
    elif kind == 'FNP':
        tua, orbf, rem, seg = P(0, 'rbf'), T.fld(O, 'rbf'), n(0), T.fld(O, 'max_np_segment')
    window = T.tmin(X, T.pos(plus(A, n(1), Dt, T.neg(Do))))
    interf_bw = sum_over(ot, sn(orbf, X))
    interf_off = sum_over(ot, sn(orbf, window))
    if seg is None:
        B = n(0)
    else:
        # max { seg_o - 1 : D_o > D_t + A  and  rbf_o(1) > 0 }, 0 if there is none
        pred = T.tand(T.cmp('Gt', Do, T.add(Dt, A)), T.cmp('Gt', sn(orbf, n(1)), n(0)))
        pred = T.substitute(pred, {O: T.bv(0)})
        val = T.substitute(T.pos(T.sub(seg, n(1))), {O: T.bv(0)})
        B = T.tmax(n(0), T.root(('maxof', ('map', ('filter', ('elems', ot), ('lam', 0, pred)), ('lam', 0, val)))))
    return dict(
        family='EDF', kind=kind, tua=tua, others=ot, limit=limit, blocking=B, rem=rem,
        BW=plus(interf_bw, sn(tua, X)),
        OFF=plus(B, sn(tua, T.add(A, n(1))), T.neg(rem), interf_off),
        result_sat=True,
        components=[
            dict(foreach=None, source=tua, shift=T.sub(DELTA, n(1))),
            dict(foreach=ot, source=orbf, shift=T.pos(plus(DELTA, n(-1), Do, T.neg(Dt)))),
        ],
        own_use_shift=n(1),
        other_use=plus(A, n(1), Dt, T.neg(Do)),
    )


def fifo_spec():
    tua, limit = P(0), P(1)
    return dict(
        family='FIFO', kind='FIFO', tua=tua, others=None, limit=limit, blocking=n(0), rem=n(0),
        BW=sn(tua, X),
        RESULT=T.sub(sn(tua, T.add(A, n(1))), A),
        components=[dict(foreach=None, source=tua, shift=T.sub(DELTA, n(1)))],
        own_use_shift=n(1),
    )


ANALYSES = {
    'fixed_priority::fully_preemptive::dedicated_uniproc_rta': fp_spec('P'),
    'fixed_priority::fully_nonpreemptive::dedicated_uniproc_rta': fp_spec('NP'),
    'fixed_priority::limited_preemptive::dedicated_uniproc_rta': fp_spec('LP'),
    'fixed_priority::floating_nonpreemptive::dedicated_uniproc_rta': fp_spec('FNP'),
    'edf::fully_preemptive::dedicated_uniproc_rta': edf_spec('P'),
    'edf::fully_nonpreemptive::dedicated_uniproc_rta': edf_spec('NP'),
    'edf::limited_preemptive::dedicated_uniproc_rta': edf_spec('LP'),
    'edf::floating_nonpreemptive::dedicated_uniproc_rta': edf_spec('FNP'),
    'fifo::rta::dedicated_uniproc_rta': fifo_spec(),
}


# ---------------------------------------------------------------- extraction

def is_tag(t, tag):
    return isinstance(t, tuple) and bool(t) and t[0] == tag


def expect(t, tag, what):
    t = T.unroot(t)
    if not is_tag(t, tag):
        raise AnchorMissing(f'{what}: expected a `{tag}` node, found {T.show(t)[:160]}')
    return t


def find_roots(t, pred):
    return [x for x in T.subterms(t) if isinstance(x, tuple) and pred(x)]


def search_calls(t):
    """all ('call', fixed_point::search, (supply, limit, closure)) sub-terms"""
    out = []
    for x in T.subterms(t):
        if is_tag(x, 'call') and x[1] == SEARCH and x not in out:
            out.append(x)
    return out


TRUNCATING = {'take', 'skip', 'step_by', 'filter', 'skip_while', 'filter_map', 'rev', 'chain', 'cycle'}


def flatten_space(it, foreach=None, stages=None, out=None):
    """search space -> list of components
       dict(foreach, foreach_lam_depth, source, shift (lam) or None, bound (lam) or None, stages[...], merged_by[...])"""
    if out is None:
        out = []
    if stages is None:
        stages = []
    it = T.unroot(it)
    if not isinstance(it, tuple) or not it:
        raise AnchorMissing(f'search space: unexpected iterator {T.show(it)[:120]}')
    tag = it[0]
    if tag in ('dedup', 'sorted'):
        return flatten_space(it[1], foreach, stages + [tag], out)
    if tag == 'merge':
        flatten_space(it[1], foreach, stages + ['merge'], out)
        flatten_space(it[2], foreach, stages + ['merge'], out)
        return out
    if tag == 'kmerge':
        inner = T.unroot(it[1])
        if is_tag(inner, 'map') and is_tag(inner[2], 'lam'):
            coll = inner[1]
            d = inner[2][1]
            flatten_space(inner[2][2], dict(coll=coll, depth=d), stages + ['kmerge'], out)
            return out
        raise AnchorMissing(f'search space: kmerge over {T.show(inner)[:120]}')
    comp = dict(foreach=foreach, stages=list(stages), bound=None, shift=None, extra=[])
    cur = it
    while True:
        if is_tag(cur, 'take_while') and comp['bound'] is None and comp['shift'] is None:
            comp['bound'] = cur[2]
            cur = T.unroot(cur[1])
            continue
        if is_tag(cur, 'map') and comp['shift'] is None:
            comp['shift'] = cur[2]
            cur = T.unroot(cur[1])
            continue
        if isinstance(cur, tuple) and cur and cur[0] in TRUNCATING | {'take_while', 'map'}:
            comp['extra'].append(cur[0])
            cur = T.unroot(cur[1])
            continue
        break
    comp['source'] = cur
    out.append(comp)
    return out


class RtaModel:
    """facts about one analysis entry point, as terms over A (offset), X (fixed-point variable),
       o (an element of the other-task slice), δ (a step)"""

    def __init__(self, crate, path):
        self.crate = crate
        self.path = path
        self.body = crate.body(path)
        if self.body is None:
            raise AnchorMissing(f'entry point {path} not found')
        self.ev = Evaluator(crate)
        self.top = T.unroot(self.ev.eval_body(self.body))
        self.where = f'{self.body.file}:{self.body.line}'
        try:
            self._extract()
        except AnchorMissing as ex:
            # the most common way to get here: the offsets are walked by a hand-written loop that can stop early
            early = []
            for e in self.ev.events:
                if e['kind'] == 'loop' and e['depth'] == 0 and not e.get('reduced'):
                    nid = e['node'].get('_nid')
                    for x in self.ev.events:
                        if x['kind'] in ('break', 'ret') and x['depth'] == 0 and nid in x['loops'] and x['pc']:
                            early.append(f"{x['node'].get('file')}:{x['node'].get('line')}: the loop over the offsets is left when "
                                         + ' && '.join(T.show(c) for c in x['pc'][-2:])[:200])
            if early:
                raise AnchorMissing('EARLY-EXIT: the per-offset results are not combined over the whole search space -- ' + '; '.join(early[:3])
                                    + f' [{ex.what[:80]}]')
            raise

    def apply_clo(self, clo, args):
        return self.ev.apply(clo, args)

    def _extract(self):
        top = self.top
        # `let mut m = 0; for a in SPACE { m = m.max(rta(a)?) } Ok(m)`: the first error, otherwise the maximum, Ok(0) when
        # there is no offset -- the value of max_response_time(SPACE.map(|a| Ok(rta(a)?)))
        if is_tag(top, 'ok'):
            inner = T.unroot(top[1])
            zero_default = False
            if is_tag(inner, 'optor') and inner[2] == T.const(0):
                inner, zero_default = T.unroot(inner[1]), True
            elif is_tag(inner, 'max') and len(inner[1]) == 2 and T.const(0) in inner[1]:
                inner, zero_default = T.unroot([c for c in inner[1] if c != T.const(0)][0]), True
            if zero_default and is_tag(inner, 'maxof') and is_tag(T.unroot(inner[1]), 'map'):
                m = T.unroot(inner[1])
                if m[2][0] == 'lam' and any(isinstance(y, tuple) and len(y) == 2 and y[0] == 'try' for y in T.subterms(m[2][2])):
                    top = ('call', MAXRT, (('map', m[1], ('lam', m[2][1], ('ok', m[2][2]))),))
        self.top = top
        self.family = 'FIFO' if is_tag(top, 'ok') else 'BW'
        if is_tag(top, 'call') and top[1] == MAXRT:
            # max_response_time(map(SPACE, λA. ok(RES)))
            m = expect(top[2][0], 'map', 'argument of max_response_time')
            self.space = m[1]
            lam = m[2]
            self.combiner = 'max_response_time'
            per = T.substitute(lam[2], {T.bv(lam[1]): A})
            self.per_offset_raw = per
            if is_tag(per, 'ok'):
                self.per_offset = per[1]
                self.per_offset_wrapped = 'ok'
            else:
                self.per_offset = per
                self.per_offset_wrapped = None
        elif is_tag(top, 'ok'):
            # FIFO: ok(optor(maxof(map(SPACE, λA. RES)), default))
            inner = T.unroot(top[1])
            self.default = None
            if is_tag(inner, 'optor'):
                self.default = inner[2]
                inner = T.unroot(inner[1])
            elif is_tag(inner, 'max') and len(inner[1]) == 2 and any(T.is_const(c) for c in inner[1]):
                # max().unwrap_or(k) over non-negative values is written max{k, max over the set}
                self.default = [c for c in inner[1] if T.is_const(c)][0]
                inner = T.unroot([c for c in inner[1] if not T.is_const(c)][0])
            mx = expect(inner, 'maxof', 'FIFO result')
            m = expect(mx[1], 'map', 'FIFO per-offset map')
            self.space = m[1]
            lam = m[2]
            self.combiner = 'max'
            self.per_offset = T.substitute(lam[2], {T.bv(lam[1]): A})
            self.per_offset_wrapped = None
        else:
            raise AnchorMissing(f'result of {self.path} is neither max_response_time(..) nor Ok(max ..): {T.show(top)[:200]}')

        # ---- search space
        self.components = flatten_space(self.space)
        # ---- the busy-window bound: the search whose result bounds the offsets
        bounds = []
        for c in self.components:
            if c['bound'] is not None:
                bounds.append(c['bound'])
        self.bw_calls = []
        for b in bounds:
            for sc in search_calls(b):
                if sc not in self.bw_calls:
                    self.bw_calls.append(sc)
        # ---- the per-offset search(es)
        self.off_calls = []
        for sc in search_calls(self.per_offset):
            if sc not in self.off_calls:
                self.off_calls.append(sc)

    # closures evaluated on symbolic arguments -------------------------------
    def closure_term(self, sc, *args):
        clo = sc[2][2]
        if not is_tag(clo, 'clo'):
            raise AnchorMissing(f'workload argument of search is not a closure: {T.show(clo)[:100]}')
        t = self.apply_clo(clo, list(args))
        return t

    def BW(self):
        if len(self.bw_calls) != 1:
            raise AnchorMissing(f'{self.path}: expected exactly one busy-window search bounding the offsets, found {len(self.bw_calls)}')
        return self.closure_term(self.bw_calls[0], X)

    def OFF(self):
        if len(self.off_calls) != 1:
            raise AnchorMissing(f'{self.path}: expected exactly one per-offset search, found {len(self.off_calls)}')
        t = self.closure_term(self.off_calls[0], X)
        # the closure was created under the per-offset lambda: its offset is $d of that lambda
        lam = T.unroot(self.top[2][0])[2] if self.combiner == 'max_response_time' else None
        if lam is not None:
            t = T.substitute(t, {T.bv(lam[1]): A})
        # .. or inside a `for` loop over the offsets that was reduced to a maximum: its offset is the loop's item
        for e in self.ev.events:
            if e['kind'] == 'loop' and e.get('reduced') and e['depth'] == 0:
                t = T.substitute(t, {('item', e['node'].get('_nid')): A})
        return t

    def closure_nodes(self):
        out = []
        for sc in self.bw_calls + self.off_calls:
            node = self.ev.closure_node(sc[2][2])
            if node is not None:
                out.append(node)
        return out
