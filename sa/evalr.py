"""Abstract interpreter: HIR facts -> canonical terms (see term.py).

This never executes anything: parameters stay symbolic, loops are havocked,
calls to trait methods stay opaque.  Crate-local free functions and inherent
methods are inlined (bounded depth) so that helper extraction does not change
a term.
"""

from . import term as T
from .facts import pat_bindings, is_stmt, loc

INT_PRIMS = {'u8', 'u16', 'u32', 'u64', 'u128', 'usize', 'i8', 'i16', 'i32', 'i64', 'i128', 'isize'}

ITER_TAGS = {'elems', 'map', 'filter', 'take_while', 'skip_while', 'flat_map', 'filter_map', 'take', 'skip',
             'step_by', 'rev', 'enumerate', 'dedup', 'kmerge', 'cycle', 'zip', 'chain', 'merge', 'sorted',
             'range', 'once', 'empty', 'repeat', 'steps', 'optiter'}

# functions the rules inspect themselves; never inlined
NOINLINE = {
    'fixed_point::search', 'fixed_point::search_with_offset', 'fixed_point::max_response_time',
    'fixed_point::brute_force_search_with_offset',
}

ERASE_METHODS = {
    'std::clone::Clone::clone', 'std::borrow::Borrow::borrow', 'std::convert::AsRef::as_ref',
    'std::ops::Deref::deref', 'std::ops::DerefMut::deref_mut', 'std::iter::Iterator::copied',
    'std::iter::Iterator::cloned', 'std::iter::Iterator::peekable', 'std::iter::Iterator::by_ref',
    'std::iter::Iterator::fuse', 'std::iter::IntoIterator::into_iter', 'std::convert::Into::into',
    'std::option::Option::<T>::copied', 'std::option::Option::<&T>::copied', 'std::option::Option::<T>::cloned',
    'std::option::Option::<&T>::cloned', 'std::option::Option::<T>::as_ref',
    'std::boxed::Box::<T>::new', 'std::rc::Rc::<T>::new', 'std::iter::Iterator::collect',
    'std::iter::FromIterator::from_iter#std', 'std::cell::RefCell::<T>::new',
    'std::slice::<impl [T]>::into_vec', 'core::slice::<impl [T]>::into_vec', 'alloc::slice::<impl [T]>::into_vec',
    'std::boxed::box_assume_init_into_vec_unsafe', 'std::boxed::Box::<T>::new_uninit',
    'std::vec::Vec::<T, A>::as_slice', 'std::vec::Vec::<T>::as_slice', 'std::vec::Vec::<T, A>::as_mut_slice',
}

LAMBDA_STAGES = {'map', 'filter', 'take_while', 'skip_while', 'flat_map', 'filter_map', 'inspect'}
COUNT_STAGES = {'take', 'skip', 'step_by'}
PLAIN_STAGES = {'rev', 'enumerate', 'dedup', 'kmerge', 'cycle', 'sorted'}
BINARY_STAGES = {'zip', 'chain', 'merge'}
CONSUMERS = {'sum', 'product', 'max', 'min', 'count', 'last', 'next'}


def strip_refs(ty):
    ty = ty.strip()
    while ty.startswith('&'):
        ty = ty[1:].strip()
        if ty.startswith("'"):
            ty = ty.split(' ', 1)[1] if ' ' in ty else ty
        if ty.startswith('mut '):
            ty = ty[4:]
    return ty.strip()


def adt_head(ty):
    """the path of a (reference-stripped) type without its trailing generic arguments; paths of items declared inside a
    function or impl start with `<` themselves (`<T as Trait>::f::Local<'a>`), so only a *trailing* `<..>` is removed"""
    ty = ty.strip()
    if not ty.startswith('<'):
        return ty.split('<')[0]
    if ty.endswith('>'):
        depth = 0
        for i in range(len(ty) - 1, -1, -1):
            if ty[i] == '>':
                depth += 1
            elif ty[i] == '<':
                depth -= 1
                if depth == 0:
                    return ty[:i] if i > 0 and not ty[:i].endswith('::') and i != 0 else ty
    return ty


class Closure:
    def __init__(self, node, env, body, depth, bvd=0, pc=(), key=None):
        self.node = node
        self.env = env
        self.body = body
        self.depth = depth
        self.bvd = bvd
        self.pc = tuple(pc)
        self.key = key
        self.applied = False
        self.param_facts = []


class Evaluator:
    def __init__(self, crate, max_depth=7, inline_private_loops=False):
        self.crate = crate
        self.max_depth = max_depth
        # summaries only: a crate-private helper whose loop does not reduce is evaluated in place, as if its body were
        # written at the call (so that extracting a loop into a helper, or folding one back, does not change a summary)
        self.inline_private_loops = inline_private_loops
        self.transparent = []
        self.tysubst = []        # type arguments of the generic crate functions being evaluated in place
        self.transparent_seen = set()     # private loop helpers evaluated in place
        self.opaque_loop_calls = set()    # crate-local callees with loops that stayed opaque calls
        self.closures = {}
        self.refs = {}           # value term of a mutable element reference -> (collection place node, index term)
        self.nclo = 0
        self.bvd = 0
        self.trace = []          # (kind, node, info) events recorded during evaluation
        self.pc = []             # path condition: bool terms that hold at the current point
        self.events = []         # dict(kind=..., node=..., pc=..., ...) guarded effects and panic-capable sites
        self.stack = []          # inlined calls: (callee path, call node, caller body)
        self.loops = []          # enclosing loop nodes (one symbolic iteration is evaluated)
        self.top_body = None
        self.fallthrough_pc = ()
        self.search_hit = None
        self.newtypes = self._numeric_newtypes()
        T.register_enums(crate.adts)
        self.unknown = []        # constructs evaluated as opaque

    # ---------------------------------------------------------------- type helpers
    def _numeric_newtypes(self):
        nt = {}
        for path, adt in self.crate.adts.items():
            if adt['kind'] == 'Struct' and len(adt['variants']) == 1:
                fs = adt['variants'][0]['fields']
                if len(fs) == 1 and fs[0]['ty'] in INT_PRIMS:
                    nt[path] = fs[0]['name']
        return nt

    def is_numeric_ty(self, ty):
        ty = strip_refs(ty)
        return ty in INT_PRIMS or ty in self.newtypes

    # ---------------------------------------------------------------- entry points
    def eval_body(self, body, args=None, depth=0):
        env = {}
        for i, p in enumerate(body.params):
            a = args[i] if args is not None and i < len(args) else T.param(i)
            self.bind(p, a, env)
        return self.ev(body.body, env, body, depth)

    def emit(self, kind, node, body, **info):
        ev = dict(kind=kind, node=node, pc=tuple(self.pc), body=body.path if body is not None else None,
                  depth=len(self.stack), via=tuple((c, n.get('file'), n.get('line')) for c, n, _ in self.stack),
                  loops=tuple(l.get('_nid') for l in self.loops))
        ev.update(info)
        self.events.append(ev)
        return ev

    def with_pc(self, conds, fn):
        mark = len(self.pc)
        for c in conds:
            c = T.unroot(c) if not T.is_bool(c) else c
            if T.is_bool(c):
                c = T.simplify_under(c, self.pc)
            if T.is_bool(c) and c != T.TRUE:
                self.pc.append(c)
        try:
            return fn()
        finally:
            del self.pc[mark:]

    def eval_entry(self, body, args=None):
        """evaluate a body as an entry point and then every closure in it that was not applied"""
        self.top_body = body
        self.pc = []
        v = self.eval_body(body, args, 0)
        self.fallthrough_pc = tuple(self.pc)
        self.pc = []
        self.force_closures(body)
        return v

    def force_closures(self, body):
        rounds = 0
        while rounds < 8:
            rounds += 1
            pending = [c for c in list(self.closures.values()) if not c.applied and c.body is body]
            if not pending:
                break
            for c in pending:
                c.applied = True
                nid = c.node.get('_nid')
                args = [T.root(('cp', nid, i)) for i in range(len(c.node['params']))]
                facts = [f(args) for f in c.param_facts]
                old_pc = self.pc
                self.pc = list(c.pc) 
                try:
                    self.with_pc(facts, lambda: self.apply(('clo', c.key), args, c.depth))
                finally:
                    self.pc = old_pc

    def make_closure(self, node, env, body, depth):
        k = self.nclo
        self.nclo += 1
        self.closures[k] = Closure(node, dict(env), body, depth, self.bvd, self.pc, k)
        return ('clo', k)

    def apply(self, fv, args, depth=0):
        fv = T.unroot(fv)
        if isinstance(fv, tuple) and fv and fv[0] == 'clo':
            c = self.closures[fv[1]]
            c.applied = True
            env = dict(c.env)
            for i, p in enumerate(c.node['params']):
                if i < len(args):
                    self.bind(p, args[i], env)
            old = self.bvd
            self.bvd = max(self.bvd, c.bvd)
            try:
                return self.unwrap_ret(self.ev(c.node['body'], env, c.body, max(depth, c.depth)))
            finally:
                self.bvd = old
        if isinstance(fv, tuple) and fv and fv[0] == 'fnref':
            return self.call_fn(fv[1], list(fv[2]), list(args), None, None, depth)
        if isinstance(fv, tuple) and fv and fv[0] == 'ctorref':
            return self.ctor(fv[1], list(args))
        return T.root(T.call('apply', fv, *[T.unroot(a) for a in args]))

    def lam(self, fv, depth=0, n=1, upstream=None):
        """('lam', d, body): fv applied to fresh bound variable(s) $d.. ; `upstream` is the iterator whose
        items the lambda receives (facts about the items enter the path condition)"""
        d = self.bvd
        c = self.closure_obj(fv)
        if c is not None:
            d = max(d, c.bvd)
        old = self.bvd
        self.bvd = d + n
        try:
            args = [T.bv(d + i) for i in range(n)]
            facts = self.item_facts(upstream, args[0]) if upstream is not None and n == 1 else []
            return ('lam' if n == 1 else 'lam2', d, self.with_pc(facts, lambda: self.apply(fv, args, depth)))
        finally:
            self.bvd = old

    def item_facts(self, it, x, fuel=12):
        """facts that hold for every item x of iterator term `it`"""
        it = T.unroot(it)
        if fuel <= 0 or not isinstance(it, tuple) or not it:
            return []
        tag = it[0]
        if tag in ('filter', 'take_while') and it[2][0] == 'lam':
            pred = T.substitute(it[2][2], {T.bv(it[2][1]): x})
            return [pred] + self.item_facts(it[1], x, fuel - 1)
        if tag in ('skip', 'take', 'step_by', 'skip_while'):
            return self.item_facts(it[1], x, fuel - 1)
        if tag in ('dedup', 'rev', 'sorted', 'cycle'):
            return self.item_facts(it[1], x, fuel - 1)
        if tag in ('merge', 'chain'):
            a = self.item_facts(it[1], x, fuel - 1)
            b = self.item_facts(it[2], x, fuel - 1)
            return [f for f in a if f in b]
        if tag == 'range':
            facts = [T.cmp('Le', it[1], x)]
            if it[2] != ('inf',):
                facts.append(T.cmp('Lt', x, it[2]))
            return facts
        if tag == 'once':
            return [T.cmp('Eq', x, it[1])] if T.is_lin(it[1]) else []
        if tag == 'elems' and isinstance(it[1], tuple) and it[1] and it[1][0] == 'call' and it[1][1].endswith('::steps_iter'):
            # items of steps_iter are interval lengths >= 1 (C11's own clause; used here as an assumption)
            return [T.cmp('Le', T.const(1), x)]
        return []

    def closure_obj(self, fv):
        fv = T.unroot(fv)
        if isinstance(fv, tuple) and fv and fv[0] == 'clo':
            return self.closures[fv[1]]
        return None

    def first_of(self, it):
        """`next()` of a filtering pipeline is a search: first(source, predicate), possibly mapped"""
        it = T.unroot(it)
        if isinstance(it, tuple) and it and it[0] == 'map' and it[2][0] == 'lam':
            inner = self.first_of(it[1])
            if inner is not None and inner[0] == 'first':
                return ('optmap', inner, it[2])
            return None
        if isinstance(it, tuple) and it and it[0] == 'filter' and it[2][0] == 'lam':
            return ('first', it[1], it[2])
        if isinstance(it, tuple) and it and it[0] == 'skip_while' and it[2][0] == 'lam' and T.is_bool(it[2][2]):
            return ('first', it[1], ('lam', it[2][1], T.tnot(it[2][2])))
        return None

    def norm_sum_iter(self, it):
        """sum over filter(X, p).map(f)  ==  sum over X.map(|x| if p(x) {f(x)} else {0})"""
        it = T.unroot(it)
        if isinstance(it, tuple) and it and it[0] == 'map' and isinstance(it[1], tuple) and it[1] and it[1][0] == 'filter' \
                and it[2][0] == 'lam' and it[1][2][0] == 'lam':
            d = it[2][1]
            p = self.shift_bv(it[1][2][2], it[1][2][1], d)
            body = T.ite(p, it[2][2], T.const(0)) if T.is_bool(p) else None
            if body is not None:
                return self.norm_sum_iter(('map', it[1][1], ('lam', d, body)))
        if isinstance(it, tuple) and it and it[0] == 'filter' and it[2][0] == 'lam':
            d = it[2][1]
            p = it[2][2]
            if T.is_bool(p):
                return self.norm_sum_iter(('map', it[1], ('lam', d, T.ite(p, T.as_lin(T.bv(d)), T.const(0)))))
        return it

    def fresh_binders(self, t):
        lows = [x[1] for x in T.subterms(t) if isinstance(x, tuple) and len(x) == 3 and x[0] in ('lam', 'lam2') and isinstance(x[1], int)]
        if not lows or min(lows) >= self.bvd:
            return t
        return T.shift_binders(t, min(lows), self.bvd - min(lows) + 1)

    def len_of(self, v):
        """length of a collection term; adaptors that keep the number of items are seen through"""
        v = T.unroot(v)
        while isinstance(v, tuple) and v and v[0] in ('map', 'rev', 'enumerate', 'sorted') :
            v = v[1]
        if isinstance(v, tuple) and v and v[0] == 'elems':
            v = v[1]
        return T.root(('len', v))

    def indexed(self, it):
        """(count, k-th item over $bvd) of an iterator whose k-th item is a function of k: a slice, its reverse, a map of those"""
        d = self.bvd
        k = T.as_lin(T.bv(d))
        if not isinstance(it, tuple) or not it:
            return None
        if it[0] == 'elems' and not (isinstance(it[1], tuple) and it[1] and it[1][0] == 'call'):
            return T.root(('len', it[1])), T.root(('idx', it[1], k))
        if it[0] == 'rev':
            sub = self.indexed(it[1])
            if sub is not None:
                n, e = sub
                return n, T.substitute(e, {T.bv(d): T.sub(T.sub(n, T.const(1)), k)})
        if it[0] == 'map' and it[2][0] == 'lam':
            sub = self.indexed(it[1])
            if sub is not None:
                n, e = sub
                return n, T.substitute(it[2][2], {T.bv(it[2][1]): e})
        if it[0] == 'range' and it[2] != ('inf',) and T.is_lin(it[1]) and T.is_lin(it[2]):
            return T.sub(it[2], it[1]), T.add(it[1], k)
        if it[0] == 'once' and len(it) == 2:
            return T.const(1), it[1]
        if it[0] == 'chain' and len(it) == 3:
            # the k-th item of a.chain(b): a_k below len(a), b_(k - len(a)) from there on
            sa, sb = self.indexed(T.unroot(it[1])), self.indexed(T.unroot(it[2]))
            if sa is not None and sb is not None and self.numericish(sa[1]) and self.numericish(sb[1]):
                na, ea = sa
                nb, eb = sb
                eb = T.substitute(eb, {T.bv(d): T.sub(k, na)})
                return T.add(na, nb), T.ite(T.cmp('Lt', k, na), ea, eb)
        if it[0] in ('map', 'filter', 'take_while', 'take', 'dedup', 'sorted'):
            # a collection that was materialised from a finite pipeline (e.g. the delta-min vector of a converted curve)
            from .rules_total import finiteness
            if finiteness(it) == 'finite':
                return self.len_of(it), T.root(('idx', it, k))
        return None

    def pc_min(self, a, b):
        """min(a, b), decided by the current path condition when it orders the two"""
        from .sites import implies_nonneg
        if implies_nonneg(T.sub(b, a), self.pc) is not None:
            return T.as_lin(a)
        if implies_nonneg(T.sub(a, b), self.pc) is not None:
            return T.as_lin(b)
        return T.tmin(a, b)

    def count_stage(self, name, it, n):
        """take / skip commute with map; on a range they move its bounds"""
        if name in ('take', 'skip') and isinstance(it, tuple) and it and it[0] == 'map':
            return ('map', self.count_stage(name, it[1], n), it[2])
        if name in ('take', 'skip') and isinstance(it, tuple) and it and it[0] == 'range' and T.is_lin(n) and T.is_lin(it[1]):
            lo, hi = it[1], it[2]
            if name == 'take':
                end = T.add(lo, n)
                return ('range', lo, end if hi == ('inf',) else self.pc_min(hi, end))
            return ('range', T.add(lo, n), hi)
        return (name, it, n)

    def stage(self, name, it, lam):
        """build a lambda stage, fusing map.map and normalising trivial forms"""
        if name == 'map' and isinstance(it, tuple) and it and it[0] == 'map':
            inner = it[2]
            if inner[0] == 'lam' and lam[0] == 'lam':
                body = T.substitute(lam[2], {T.bv(lam[1]): self.shift_bv(inner[2], inner[1], lam[1])})
                return ('map', it[1], ('lam', lam[1], body))
        if name == 'map' and lam[0] == 'lam' and lam[2] in (T.bv(lam[1]), T.as_lin(T.bv(lam[1]))):
            return it       # map(it, |x| x)
        if name == 'filter' and isinstance(it, tuple) and it and it[0] == 'map' and it[2][0] == 'lam' and lam[0] == 'lam':
            # filter(map(X, f), p)  ==  map(filter(X, p . f), f)
            inner = it[2]
            pf = T.substitute(lam[2], {T.bv(lam[1]): self.shift_bv(inner[2], inner[1], lam[1])})
            return ('map', ('filter', it[1], ('lam', lam[1], pf)), ('lam', lam[1], self.shift_bv(inner[2], inner[1], lam[1])))
        if name == 'filter_map' and lam[0] == 'lam' and isinstance(lam[2], tuple) and lam[2] and lam[2][0] == 'boolthen':
            # filter_map(|x| c(x).then(|| v(x)))  ==  filter(c).map(v)
            return self.stage('map', ('filter', it, ('lam', lam[1], lam[2][1])), ('lam', lam[1], lam[2][2]))
        return (name, it, lam)

    def shift_bv(self, t, frm, to):
        if frm == to:
            return t
        return T.substitute(t, {T.bv(frm): T.bv(to)})

    def closure_node(self, fv):
        fv = T.unroot(fv)
        if isinstance(fv, tuple) and fv and fv[0] == 'clo':
            return self.closures[fv[1]].node
        return None

    # ---------------------------------------------------------------- patterns
    def bind(self, p, val, env):
        k = p['k']
        if k == 'Bind':
            env[p['id']] = val
            if 'sub' in p:
                self.bind(p['sub'], val, env)
        elif k in ('Ref', 'Deref'):
            self.bind(p['p'], val, env)
        elif k == 'Tuple':
            for i, q in enumerate(p['ps']):
                self.bind(q, T.proj(val, i), env)
        elif k == 'TupleStruct':
            name = p['path'].get('def', p['path'].get('name', '?'))
            short = name.split('::')[-1]
            v = T.unroot(val)
            for i, q in enumerate(p['ps']):
                if isinstance(v, tuple) and v and v[0] in ('optproj', 'optmap') and isinstance(v[1], tuple) and v[1] and v[1][0] == 'first' \
                        and short == 'Some' and i == 0:
                    hit = ('case', v[1], 'Some', 0)
                    self.bind(q, T.proj(hit, v[2]) if v[0] == 'optproj' else T.substitute(v[2][2], {T.bv(v[2][1]): hit}), env)
                elif isinstance(v, tuple) and v and v[0] in ('some', 'ok', 'err') and short.lower() == v[0] and i == 0:
                    self.bind(q, v[1], env)
                elif self.opt_view(v) is not None and short == 'Some' and i == 0:
                    self.bind(q, self.opt_view(v)[1], env)
                else:
                    self.bind(q, ('case', v, short, i), env)
        elif k == 'Struct':
            name = p['path'].get('def', p['path'].get('name', '?'))
            for f in p['fields']:
                self.bind(f['p'], T.fld(val, self.field_name(name, f['name'])), env)
        elif k == 'Guard':
            self.bind(p['p'], val, env)
        elif k in ('Or', 'Slice'):
            for q in p.get('ps', []):
                for b in pat_bindings(q):
                    env[b['id']] = ('patbind', b['id'])

    def patkey(self, p):
        k = p['k']
        if k in ('Wild', 'Bind'):
            return '_'
        if k in ('Ref', 'Deref', 'Guard'):
            return self.patkey(p['p'])
        if k == 'TupleStruct':
            return p['path'].get('def', p['path'].get('name', '?')) + '(' + ','.join(self.patkey(q) for q in p['ps']) + ')'
        if k == 'Struct':
            return p['path'].get('def', p['path'].get('name', '?')) + '{..}'
        if k == 'Path':
            return p['path'].get('def', p['path'].get('name', '?'))
        if k == 'Lit':
            return 'lit:' + str(p['lit'].get('v'))
        if k == 'Or':
            return '|'.join(sorted(self.patkey(q) for q in p['ps']))
        if k == 'Tuple':
            return '(' + ','.join(self.patkey(q) for q in p['ps']) + ')'
        return k

    # ---------------------------------------------------------------- assigned locals (for havoc)
    def assigned_locals(self, n):
        out = set()
        from .facts import walk
        for x in walk(n):
            k = x.get('k')
            if k in ('Assign', 'AssignOp'):
                r = self.place_root(x['l'])
                if r is not None:
                    out.add(r)
            elif k == 'AddrOf' and x.get('mut'):
                r = self.place_root(x['e'])
                if r is not None:
                    out.add(r)
            elif k == 'MethodCall':
                adj = x['recv'].get('adj') or []
                if any('Mut' in a and 'Borrow' in a for a in adj) or x.get('recv_ty', '').startswith('&mut'):
                    r = self.place_root(x['recv'])
                    if r is not None:
                        out.add(r)
        return out

    def place_root(self, e):
        while True:
            k = e.get('k')
            if k == 'Path':
                return e['id'] if e.get('res') == 'Local' else None
            if k in ('Field', 'Index', 'DropTemps', 'Use', 'AddrOf'):
                e = e['e']
            elif k == 'Unary' and e.get('op') == 'Deref':
                e = e['e']
            elif k == 'MethodCall' and (e.get('callee') or '').endswith('deref_mut'):
                e = e['recv']
            else:
                return None

    # ---------------------------------------------------------------- blocks
    def ev_block(self, b, env, body, depth):
        stmts = b['stmts']
        for idx, st in enumerate(stmts):
            k = st['k']
            if k == 'Let':
                init = st.get('init')
                if init is None:
                    for bnd in pat_bindings(st['pat']):
                        env[bnd['id']] = ('uninit', bnd['id'])
                    continue
                lm = self.let_match_return(st, init, env, body, depth) if st.get('els') is None else None
                if lm is not None:
                    cond, elsev, v = lm
                    self.bind(st['pat'], v, env)
                    rest = {'k': 'Block', 'stmts': stmts[idx + 1:], 'expr': b.get('expr')}
                    restv = self.with_pc([cond], lambda: self.ev_block(rest, env, body, depth))
                    return self.join(T.tnot(cond), elsev, restv)
                v = self.ev(init, env, body, depth)
                if st.get('els') is not None:
                    # let PAT = init else { <diverges> };   ==   if !(init matches PAT) { <diverges> }  then bind
                    cond = self.full_pattern_cond(st['pat'], v)
                    els = st['els']
                    if cond is not None:
                        last = els.get('expr')
                        if last is None and els.get('stmts') and els['stmts'][-1]['k'] in ('Expr', 'Semi'):
                            last = els['stmts'][-1]['e']
                        nstm = len(els.get('stmts', [])) - (0 if els.get('expr') is not None else 1)
                        if last is not None and last.get('k') == 'Ret' and nstm <= 0:
                            def inner():
                                rv = self.ev(last['e'], env, body, depth) if last.get('e') else ('unit',)
                                self.emit('ret', last, body, value=rv, joined=True)
                                return ('ret', rv)
                            elsev = self.with_pc([T.tnot(cond)], inner)
                        else:
                            self.with_pc([T.tnot(cond)], lambda: self.ev(els, dict(env), body, depth))
                            elsev = ('never',)
                        self.bind(st['pat'], v, env)
                        rest = {'k': 'Block', 'stmts': stmts[idx + 1:], 'expr': b.get('expr')}
                        restv = self.with_pc([cond], lambda: self.ev_block(rest, env, body, depth))
                        return self.join(T.tnot(cond), elsev, restv)
                    v = ('letelse', v)
                self.bind(st['pat'], v, env)
            elif k in ('Expr', 'Semi'):
                e = st['e']
                er = self.early_return(e, env, body, depth)
                if er is not None:
                    cond, val = er
                    rest = dict(b)
                    rest = {'k': 'Block', 'stmts': stmts[idx + 1:], 'expr': b.get('expr')}
                    restv = self.with_pc([T.tnot(cond)] if T.is_bool(cond) else [],
                                         lambda: self.ev_block(rest, env, body, depth))
                    return self.join(cond, val, restv)
                if e.get('k') == 'Ret':
                    return self.ev(e, env, body, depth)
                self.search_hit = None
                self.ev(e, env, body, depth)
                if self.search_hit is not None:
                    cond, val = self.search_hit
                    self.search_hit = None
                    rest = {'k': 'Block', 'stmts': stmts[idx + 1:], 'expr': b.get('expr')}
                    restv = self.with_pc([T.tnot(cond)], lambda: self.ev_block(rest, env, body, depth))
                    return self.join(cond, ('ret', val), restv)
        if b.get('expr') is not None:
            self.search_hit = None
            v = self.ev(b['expr'], env, body, depth)
            if self.search_hit is not None:
                cond, val = self.search_hit
                self.search_hit = None
                return self.join(cond, ('ret', val), v)
            return v
        return ('unit',)

    def let_match_return(self, st, init, env, body, depth):
        """`let PAT = match s { P [if g] => v, _ => return r };`  is  `if !(s matches P && g) { return r }; let PAT = v;`
        (the let-else spelled as a match).  Returns (cond, ('ret', r), v) or None when the statement has another shape."""
        e = init
        while e.get('k') in ('DropTemps', 'Use'):
            e = e['e']
        if e.get('k') != 'Match' or e.get('src', '') not in ('', 'Normal') or len(e.get('arms', [])) != 2:
            return None
        a0, a1 = e['arms']
        if a1['pat'].get('k') != 'Wild' or a1.get('guard') is not None:
            return None
        rb = a1['body']
        while rb.get('k') in ('DropTemps', 'Use') or (rb.get('k') == 'Block' and not rb.get('stmts') and rb.get('expr') is not None):
            rb = rb['e'] if rb.get('k') != 'Block' else rb['expr']
        if rb.get('k') != 'Ret':
            return None
        if a0['body'].get('ty') == '!':
            return None
        scrut = self.ev(e['scrut'], env, body, depth)
        cond = self.full_pattern_cond(a0['pat'], scrut)
        if cond is None:
            return None
        env_a = dict(env)
        self.bind(a0['pat'], scrut, env_a)
        if a0.get('guard') is not None:
            g = self.with_pc([cond], lambda: self.ev(a0['guard'], env_a, body, depth))
            if not T.is_bool(g):
                g = T.unroot(g)
            cond = T.tand(cond, g)

        def inner():
            rv = self.ev(rb['e'], env, body, depth) if rb.get('e') else ('unit',)
            self.emit('ret', rb, body, value=rv, joined=True)
            return ('ret', rv)
        elsev = self.with_pc([T.tnot(cond)], inner)
        v = self.with_pc([cond], lambda: self.ev(a0['body'], env_a, body, depth))
        for kid in env:
            if kid in env_a and env_a[kid] != env[kid]:
                env[kid] = env_a[kid]
        return cond, elsev, v

    def early_return(self, e, env, body, depth):
        """`if c { return v; }` or `if c { <diverges> }` (assert!) in statement position -> (c, v)"""
        while e.get('k') in ('DropTemps', 'Use'):
            e = e['e']
        if e.get('k') != 'If' or e.get('e') is not None:
            return None
        t = e['t']
        if t.get('k') != 'Block':
            return None
        last = None
        if t.get('expr') is not None:
            last = t['expr']
        elif t['stmts']:
            s = t['stmts'][-1]
            if s['k'] in ('Expr', 'Semi'):
                last = s['e']
        diverges = t.get('ty') == '!' or (last is not None and last.get('ty') == '!' and last.get('k') != 'Ret')
        if last is not None and last.get('k') == 'Ret' and len(t['stmts']) <= (0 if t.get('expr') is not None else 1):
            c = self.ev_cond(e['c'], env, body, depth)
            cb = c if T.is_bool(c) else T.unroot(c)

            def inner():
                v = self.ev(last['e'], env, body, depth) if last.get('e') else ('unit',)
                self.emit('ret', last, body, value=v, joined=True)
                return v
            v = self.with_pc([cb], inner)
            return c, ('ret', v)
        if diverges:
            c = self.ev_cond(e['c'], env, body, depth)
            cb = c if T.is_bool(c) else T.unroot(c)
            self.with_pc([cb], lambda: self.ev(t, dict(env), body, depth))
            return c, ('never',)
        return None

    def join(self, cond, a, b):
        ra = a[1] if isinstance(a, tuple) and a and a[0] == 'ret' else a
        rb = b[1] if isinstance(b, tuple) and b and b[0] == 'ret' else b
        if ra == ('never',):
            return rb
        if rb == ('never',):
            return ra
        # match o { Some(x) => x, None => d }  ==  o.unwrap_or(d)
        for c, x, y in ((cond, ra, rb), (T.tnot(cond) if T.is_bool(cond) else None, rb, ra)):
            if isinstance(c, tuple) and c and c[0] == 'matches' and c[2] in ('Some', 'Ok') and T.unroot(x) == ('case', c[1], c[2], 0) \
                    and not T.mentions(y, ('case', c[1], c[2], 0)):
                return self.opt_or(c[1], y)
        if T.is_lin(ra) or T.is_lin(rb) or T.is_bool(ra):
            try:
                return T.ite(cond, ra, rb)
            except Exception:
                pass
        return T.ite(cond, ra, rb)

    def ev_cond(self, c, env, body, depth):
        v = self.ev(c, env, body, depth)
        return v

    # ---------------------------------------------------------------- expressions
    def ev(self, e, env, body, depth):
        if e is None:
            return ('unit',)
        k = e['k']
        m = getattr(self, 'ev_' + k, None)
        if m is None:
            self.unknown.append((k, loc(e)))
            return ('opaque', k, e.get('_nid'))
        return m(e, env, body, depth)

    def ev_Block(self, e, env, body, depth):
        return self.ev_block(e, env, body, depth)

    def ev_Lit(self, e, env, body, depth):
        l = e['lit']
        if l['lk'] == 'Int':
            return T.const(int(l['v']))
        if l['lk'] == 'Bool':
            return T.TRUE if l['v'] else T.FALSE
        return ('lit', l['lk'], l.get('v'))

    def ev_Path(self, e, env, body, depth):
        if e.get('res') == 'Local':
            if e['id'] in env:
                return env[e['id']]
            return ('free', e['name'], e['id'])
        dk = e.get('defkind', '')
        d = e.get('def', e.get('name'))
        if dk.startswith('Const') or dk.startswith('AssocConst'):
            cb = self.crate.body(d)
            if cb is not None and depth < self.max_depth:
                return self.eval_body(cb, [], depth + 1)
            return ('const', d)
        if dk.startswith('Ctor'):
            owner = e.get('ctor_of', d)
            # unit-like constructor used as a value
            if e.get('ty', '').startswith('fn(') or 'fn(' in e.get('ty', '')[:4]:
                return ('ctorref', owner)
            short = owner.split('::')[-1]
            if short == 'None':
                return ('none',)
            return ('unitctor', owner)
        if dk in ('Fn', 'AssocFn'):
            return ('fnref', d, tuple(e.get('targs', [])))
        if e.get('res') == 'SelfCtor':
            return ('ctorref', d)
        return ('def', d)

    def ev_DropTemps(self, e, env, body, depth):
        return self.ev(e['e'], env, body, depth)

    ev_Use = ev_DropTemps
    ev_Type = ev_DropTemps

    def ev_AddrOf(self, e, env, body, depth):
        return self.ev(e['e'], env, body, depth)

    def ev_Unary(self, e, env, body, depth):
        v = self.ev(e['e'], env, body, depth)
        op = e['op']
        if op == 'Deref':
            return v
        if op == 'Not':
            if T.is_bool(v):
                return T.tnot(v)
            return ('not', v)
        if op == 'Neg':
            return T.neg(v) if T.is_lin(v) else ('neg', v)
        return ('unop', op, v)

    def ev_Cast(self, e, env, body, depth):
        v = self.ev(e['e'], env, body, depth)
        frm = e.get('from', '')
        to = e.get('ty', '')
        if frm == 'bool':
            return T.ind(v)
        if frm in INT_PRIMS and to in INT_PRIMS:
            return v
        return ('cast', T.unroot(v), to)

    def ev_Tup(self, e, env, body, depth):
        if not e['es']:
            return ('unit',)
        return T.tup(*[self.ev(x, env, body, depth) for x in e['es']])

    def ev_Array(self, e, env, body, depth):
        return ('arr', tuple(self.ev(x, env, body, depth) for x in e['es']))

    def ev_Repeat(self, e, env, body, depth):
        return ('arr_repeat', self.ev(e['e'], env, body, depth))

    def ev_Field(self, e, env, body, depth):
        b = self.ev(e['e'], env, body, depth)
        bty = strip_refs(e.get('base_ty', ''))
        if bty.startswith('std::boxed::Box<'):
            bty = bty[len('std::boxed::Box<'):].rsplit('>', 1)[0].split(',')[0]
        base_adt = adt_head(bty)
        if base_adt in self.newtypes and self.newtypes[base_adt] == e['name']:
            return b
        return T.fld(b, self.field_name(base_adt, e['name']))

    def field_name(self, adt_path, name):
        """fields of a crate-private struct are named by position (`#0`, `#1`, ..): renaming them, or turning a private
        tuple struct into one with named fields, is not observable"""
        adt = self.crate.adts.get(adt_path)
        if not adt or adt.get('kind') != 'Struct' or str(adt.get('vis', '')) == 'Public' or len(adt.get('variants', [])) != 1:
            return name
        names = [f['name'] for f in adt['variants'][0]['fields']]
        if name in names:
            return '#' + str(names.index(name))
        return name

    def ev_Index(self, e, env, body, depth):
        b = self.ev(e['e'], env, body, depth)
        i = self.ev(e['i'], env, body, depth)
        bu = T.unroot(b)
        if isinstance(bu, tuple) and bu and bu[0] == 'tup' and T.is_lin(i) and T.is_const(i) and 0 <= i[1] < len(bu[1]):
            return bu[1][i[1]]       # constant index into a window of known width: in bounds by construction
        self.emit('index', e, body, base=b, idx=i, base_ty=e.get('base_ty'))
        return T.root(('idx', T.unroot(b), i))

    def ev_Struct(self, e, env, body, depth):
        path = e['path'].get('def', e['path'].get('name'))
        if e['path'].get('res') in ('SelfTyAlias', 'SelfCtor'):
            path = adt_head(strip_refs(e.get('ty', path)))
        ty_adt = adt_head(strip_refs(e.get('ty', '')))
        if e['path'].get('defkind') == 'Variant':
            ty_adt = e['path'].get('def', ty_adt)
        fields = {f['name']: self.ev(f['e'], env, body, depth) for f in e['fields']}
        if ty_adt in self.newtypes and len(fields) == 1 and self.newtypes[ty_adt] in fields:
            return fields[self.newtypes[ty_adt]]
        fields = {self.field_name(ty_adt, k): v for k, v in fields.items()}
        # range expressions are struct literals after desugaring
        short = ty_adt.split('::')[-1]
        if short in ('Range', 'RangeFrom', 'RangeTo', 'RangeFull', 'RangeInclusive') and 'ops' in ty_adt or ty_adt.startswith('std::range') or ty_adt.startswith('core::range'):
            lo = fields.get('start', T.const(0))
            hi = fields.get('end')
            incl = 'Inclusive' in short
            if hi is not None and incl:
                hi = T.add(hi, T.const(1))
            return ('range', lo, hi if hi is not None else ('inf',))
        if 'base' in e:
            basev = self.ev(e['base'], env, body, depth)
            return ('struct_upd', ty_adt or path, tuple(sorted(fields.items())), basev)
        ad = self.iterator_adapter(ty_adt or path, fields)
        if ad is not None:
            return ad
        return self.eta_struct(ty_adt or path, fields)

    def eta_struct(self, path, fields):
        """S { f1: x.f1, .., fn: x.fn } with all the fields of S taken from one value x is x (a clone through the constructor)"""
        adt = self.crate.adts.get(path)
        if adt and adt.get('kind') == 'Struct' and len(adt.get('variants', [])) == 1 and fields:
            names = [self.field_name(path, f['name']) for f in adt['variants'][0]['fields']]
            bases = set()
            for n in names:
                v = T.unroot(fields.get(n)) if n in fields else None
                if not (isinstance(v, tuple) and len(v) == 3 and v[0] == 'f' and v[2] == n):
                    bases = None
                    break
                bases.add(v[1])
            if bases is not None and len(bases) == 1 and set(fields) == set(names):
                return bases.pop()
        return T.struct(path, fields)

    def iterator_adapter(self, ty, fields):
        """a crate-local struct whose Iterator::next only pulls one item from an iterator it holds in a field and maps it
        through a function of its other (never assigned) fields is that map: S { inner: it, k } == it.map(|x| g(x, k))"""
        if not hasattr(self, '_adapters'):
            self._adapters = {}
        if ty not in self._adapters:
            self._adapters[ty] = None
            nxt = None
            import re as _re
            for imp in self.crate.impls:
                if imp.get('trait') == 'std::iter::Iterator' and adt_head(_re.sub(r'/#\d+', '', strip_refs(imp.get('self_ty', '')))) == ty:
                    for it in imp['items']:
                        if it['name'] == 'next':
                            nxt = self.crate.body(it['path'])
            if nxt is not None and not self.has_loop(nxt):
                sub = Evaluator(self.crate, self.max_depth)
                ph = T.struct(ty, {f: ('v', '@field:' + f) for f in fields})
                try:
                    top = T.unroot(sub.eval_body(nxt, [ph]))
                except RecursionError:
                    top = None
                pulls = [x for x in sub.events if x['kind'] == 'mutcall']
                bad = [x for x in sub.events if x['kind'] in ('assign', 'loop', 'panic')]
                if top is not None and len(pulls) == 1 and not bad and pulls[0]['callee'] == 'std::iter::Iterator::next':
                    src = T.unroot(pulls[0]['args'][0])
                    if isinstance(src, tuple) and len(src) == 2 and src[0] == 'v' and str(src[1]).startswith('@field:'):
                        item = ('case', ('nextof', ('elems', src)), 'Some', 0)
                        g = None
                        if isinstance(top, tuple) and top and top[0] == 'some' and T.mentions(top[1], item):
                            rets = [x for x in sub.events if x['kind'] == 'ret']
                            if all(x['value'] == ('none',) for x in rets):
                                g = ('body', top[1], item)
                        elif isinstance(top, tuple) and top and top[0] == 'optmap' and top[1] == ('nextof', ('elems', src)) and top[2][0] == 'lam':
                            g = ('lam', top[2])
                        if g is not None:
                            self._adapters[ty] = (src[1][len('@field:'):], g)
        ad = self._adapters[ty]
        if ad is None:
            return None
        fname, g = ad
        if fname not in fields:
            return None
        inner = self.as_iter(fields[fname])
        phs = {('v', '@field:' + f): v for f, v in fields.items() if f != fname}
        d = self.bvd
        if g[0] == 'body':
            bodyt = T.substitute(g[1], {g[2]: T.bv(d)})
            if T.mentions(bodyt, ('v', '@field:' + fname)):
                return None
            bodyt = T.substitute(bodyt, phs)
            return self.stage('map', inner, ('lam', d, bodyt))
        lam = g[1]
        bodyt = T.substitute(T.shift_binders(lam, lam[1], max(0, d - lam[1]))[2], phs)
        return self.stage('map', inner, ('lam', max(d, lam[1]), bodyt))

    def ev_Closure(self, e, env, body, depth):
        return self.make_closure(e, env, body, depth)

    def ev_If(self, e, env, body, depth):
        cnode = e['c']
        while cnode.get('k') in ('DropTemps', 'Use'):
            cnode = cnode['e']
        c = self.ev(cnode, env, body, depth)
        env_t = dict(env)
        env_e = dict(env)
        if cnode.get('k') == 'LetExpr':
            # bindings of the pattern are visible in the then-branch
            self.bind_iflet(cnode, env_t, body, depth)
        cb = c if T.is_bool(c) else T.unroot(c)
        tv = self.with_pc([cb], lambda: self.ev(e['t'], env_t, body, depth))
        if e.get('e') is not None:
            ev_ = self.with_pc([T.tnot(cb)] if T.is_bool(cb) else [], lambda: self.ev(e['e'], env_e, body, depth))
        else:
            ev_ = ('unit',)
        # merge assignments
        for kid in set(env_t) | set(env_e):
            if kid in env and (env_t.get(kid) != env.get(kid) or env_e.get(kid) != env.get(kid)):
                a, b = env_t.get(kid, env[kid]), env_e.get(kid, env[kid])
                env[kid] = a if a == b else self.join(c, a, b)
        return self.join(c, tv, ev_)

    def ctor_leaves(self, t, fuel=8):
        """every leaf of a tree of conditionals is an Option / Result constructor value"""
        t = T.unroot(t)
        if not isinstance(t, tuple) or not t or fuel <= 0:
            return False
        if t[0] == 'ite' and len(t) == 4:
            return self.ctor_leaves(t[2], fuel - 1) and self.ctor_leaves(t[3], fuel - 1)
        return t[0] in ('some', 'none', 'ok', 'err')

    def bind_iflet(self, cnode, env, body, depth):
        v = self.ev(cnode['init'], env, body, depth)
        self.bind(cnode['pat'], v, env)

    def ev_LetExpr(self, e, env, body, depth):
        v = self.ev(e['init'], env, body, depth)
        c = self.full_pattern_cond(e['pat'], v)
        if c is not None:
            return c
        return ('matches', T.unroot(v), self.patkey(e['pat']))

    def ev_Match(self, e, env, body, depth):
        src = e.get('src', '')
        if src.startswith('TryDesugar'):
            inner = e['scrut']
            # std::ops::Try::branch(x)
            if inner.get('k') == 'Call' and inner['args']:
                x = self.ev(inner['args'][0], env, body, depth)
            else:
                x = self.ev(inner, env, body, depth)
            self.trace.append(('try', e, x))
            sty = (inner['args'][0].get('ty', '') if inner.get('k') == 'Call' and inner['args'] else '')
            if sty.startswith('std::option::Option'):
                xu = T.unroot(x)
                if isinstance(xu, tuple) and xu and xu[0] == 'some':
                    return xu[1]
                ov = self.opt_view(xu)
                cond = ov[0] if ov is not None else ('matches', xu, 'Some')
                self.with_pc([T.tnot(cond)], lambda: self.emit('ret', e, body, value=('none',), joined=False))
                c2 = T.simplify_under(cond, self.pc)
                if c2 != T.TRUE:
                    self.pc.append(c2)      # holds until the enclosing scope ends (with_pc truncates)
                return ov[1] if ov is not None else T.root(('case', xu, 'Some', 0))
            xu = T.unroot(x)
            if isinstance(xu, tuple) and len(xu) == 2 and xu[0] == 'ok':
                return xu[1]        # `Ok(v)?` is v
            return T.root(('try', xu))
        if src == 'ForLoopDesugar':
            return self.ev_forloop(e, env, body, depth)
        if self.is_explicit_try(e):
            # `match r { Ok(v) => v, Err(e) => return Err(e) }` (or Some/None) is `r?` written out
            syn = {'k': 'Match', 'src': 'TryDesugar(explicit)', 'ty': e.get('ty'), '_nid': e.get('_nid'), 'span': e.get('span'),
                   'scrut': {'k': 'Call', 'args': [e['scrut']], 'ty': e['scrut'].get('ty')}, 'arms': e['arms']}
            for key in ('loc', 'line', 'file'):
                if key in e:
                    syn[key] = e[key]
            return self.ev_Match(syn, env, body, depth)
        scrut = self.ev(e['scrut'], env, body, depth)
        return self.match_value(e, scrut, env, body, depth)

    @staticmethod
    def _strip(x):
        while x is not None and (x.get('k') in ('DropTemps', 'Use') or
                                 (x.get('k') == 'Block' and not x.get('stmts') and x.get('expr') is not None)):
            x = x['expr'] if x.get('k') == 'Block' else x['e']
        return x

    def is_explicit_try(self, e):
        arms = e.get('arms', [])
        if e.get('src', '') not in ('', 'Normal') or len(arms) != 2 or any(a.get('guard') is not None for a in arms):
            return False
        sty = e['scrut'].get('ty', '')
        if not (sty.startswith('std::result::Result') or sty.startswith('std::option::Option')):
            return False

        def ctor(p):
            if p.get('k') not in ('TupleStruct', 'Path'):
                return None, None
            path = p['path'].get('ctor_of') or p['path'].get('def') or p['path'].get('name') or ''
            return path.split('::')[-1], p.get('ps', [])
        good = bad = None
        for a in arms:
            c, ps = ctor(a['pat'])
            if c in ('Ok', 'Some'):
                good = (a, ps)
            elif c in ('Err', 'None'):
                bad = (a, ps, c)
        if good is None or bad is None:
            return False
        # value arm: Ok(v) => v
        a, ps = good
        if len(ps) != 1 or ps[0].get('k') != 'Bind' or 'sub' in ps[0]:
            return False
        b = self._strip(a['body'])
        if b.get('k') != 'Path' or b.get('res') != 'Local' or b.get('id') != ps[0].get('id'):
            return False
        # returning arm: Err(e) => return Err(e)   /   None => return None
        a, ps, c = bad
        r = self._strip(a['body'])
        if r.get('k') != 'Ret' or r.get('e') is None:
            return False
        rv = self._strip(r['e'])
        if c == 'None':
            if rv.get('k') != 'Path':
                return False
            nm = (rv.get('ctor_of') or rv.get('def') or rv.get('name') or '')
            return nm.split('::')[-1] == 'None'
        if len(ps) != 1 or ps[0].get('k') != 'Bind' or 'sub' in ps[0]:
            return False
        if rv.get('k') != 'Call' or len(rv.get('args', [])) != 1:
            return False
        fp = rv.get('fnpath') or {}
        fn = fp.get('ctor_of') or fp.get('def') or ''
        if fn.split('::')[-1] != 'Err':
            return False
        arg = self._strip(rv['args'][0])
        return arg.get('k') == 'Path' and arg.get('res') == 'Local' and arg.get('id') == ps[0].get('id')

    def match_value(self, e, scrut, env, body, depth, fuel=6):
        # case of case: a scrutinee that is itself a conditional over constructor values (a helper returning
        # `if c { Some(x) } else { None }`, matched by its caller) is matched leaf by leaf
        su = T.unroot(scrut)
        if fuel > 0 and isinstance(su, tuple) and len(su) == 4 and su[0] == 'ite' and self.ctor_leaves(su):
            c = su[1]
            env_t, env_e = dict(env), dict(env)
            tv = self.with_pc([c], lambda: self.match_value(e, su[2], env_t, body, depth, fuel - 1))
            ev_ = self.with_pc([T.tnot(c)], lambda: self.match_value(e, su[3], env_e, body, depth, fuel - 1))
            for kid in set(env_t) | set(env_e):
                if kid in env and (env_t.get(kid) != env.get(kid) or env_e.get(kid) != env.get(kid)):
                    a, b = env_t.get(kid, env[kid]), env_e.get(kid, env[kid])
                    env[kid] = a if a == b else self.join(c, a, b)
            return self.join(c, tv, ev_)
        conds = [self.bool_pattern(a['pat'], scrut) for a in e['arms']]
        if all(c is not None for c in conds) and all(a.get('guard') is None for a in e['arms']):
            # a match over boolean literals / tuples of them is a decision list: nested conditionals
            vals = []
            seen_not = []
            for a, c in zip(e['arms'], conds):
                pcs = [T.tnot(x) for x in seen_not] + [c]
                vals.append(self.with_pc(pcs, lambda a=a: self.ev(a['body'], dict(env), body, depth)))
                seen_not.append(c)
            res = vals[-1]
            for i in range(len(conds) - 2, -1, -1):
                c = T.simplify_under(conds[i], [T.tnot(x) for x in conds[:i]])
                res = self.join(c, vals[i], res)
            return res
        dl = self.decision_list(e, scrut, env, body, depth)
        if dl is not None:
            return dl
        arms = []
        earlier = []
        n_arms = len(e['arms'])
        for ai, a in enumerate(e['arms']):
            env_a = dict(env)
            self.bind(a['pat'], scrut, env_a)
            g = self.ev(a['guard'], env_a, body, depth) if a.get('guard') is not None else None
            cond = self.pattern_cond(a['pat'], scrut)
            pcs = [T.tnot(c) for c in earlier]
            if cond is not None and not (ai == n_arms - 1 and g is None):
                pcs.append(cond)        # the last arm of an exhaustive match needs no condition of its own
            if g is not None and T.is_bool(g):
                pcs.append(g)
            bv_ = self.with_pc(pcs, lambda: self.ev(a['body'], env_a, body, depth))
            if cond is not None and g is None:
                earlier.append(cond)
            arms.append((self.patkey(a['pat']), g, bv_))
        # bool-valued two-arm match on patterns (matches!): keep as 'matches'
        if len(arms) == 2 and arms[0][2] == T.TRUE and arms[1][2] == T.FALSE and arms[1][0] == '_':
            return ('matches', T.unroot(scrut), arms[0][0])
        # all arms equal
        vals = {a[2] for a in arms}
        if len(vals) == 1 and all(a[1] is None for a in arms):
            return arms[0][2]
        m = ('match', T.unroot(scrut), tuple(arms))
        if any(T.is_lin(a[2]) for a in arms):
            return T.root(m)
        return m

    # ---- matches over enums as decision lists ------------------------------------------------------------------
    def variant_universe(self, variant_path):
        """names of all variants of the enum a variant path belongs to (crate enums, Option, Result)"""
        base = variant_path.split('(')[0]
        if base.endswith('::Some') or base.endswith('::None'):
            return {'Some', 'None'}
        if base.endswith('::Ok') or base.endswith('::Err'):
            return {'Ok', 'Err'}
        enum_path = base.rsplit('::', 1)[0]
        adt = self.crate.adts.get(enum_path)
        if adt and adt.get('kind') == 'Enum':
            return {v['name'] for v in adt['variants']}
        return None

    def full_pattern_cond(self, p, scrut):
        """condition under which pattern p matches the value scrut, over ('matches', x, <variant path>) atoms; None if the
        pattern is of a kind that is not handled (literals other than bool, ranges, slices, bindings with sub-patterns)"""
        k = p.get('k')
        if k in ('Wild',):
            return T.TRUE
        if k == 'Bind':
            return T.TRUE if 'sub' not in p else self.full_pattern_cond(p['sub'], scrut)
        if k in ('Ref', 'Deref'):
            return self.full_pattern_cond(p['p'], scrut)
        if k == 'Lit':
            return self.bool_pattern(p, scrut)
        if k == 'Or':
            cs = [self.full_pattern_cond(q, scrut) for q in p['ps']]
            return None if any(c is None for c in cs) else T.tor(*cs)
        if k == 'Tuple':
            cs = [self.full_pattern_cond(q, T.proj(scrut, i)) for i, q in enumerate(p['ps'])]
            return None if any(c is None for c in cs) else T.tand(*cs)
        if k in ('TupleStruct', 'Struct', 'Path'):
            path = p['path'].get('ctor_of') or p['path'].get('def') or p['path'].get('name')
            dk = p['path'].get('defkind', '')
            if not (dk.startswith('Ctor') or dk == 'Variant' or path.split('::')[-1] in ('Some', 'None', 'Ok', 'Err')):
                return None
            su = T.unroot(scrut)
            short = path.split('::')[-1]
            view = None
            if isinstance(su, tuple) and su and su[0] in ('optproj', 'optmap') and isinstance(su[1], tuple) and su[1] and su[1][0] == 'first':
                view = su           # an Option computed from a search: test the search, project the hit
                su = su[1]
            ov = self.opt_view(su)
            if short == 'None':
                base = T.tnot(ov[0] if ov is not None else ('matches', su, 'Some'))
            elif short == 'Some' and ov is not None:
                base = ov[0]
            elif short == 'Err':
                base = T.tnot(('matches', su, 'Ok'))
            elif short in ('Some', 'Ok'):
                base = ('matches', su, short)
            else:
                base = ('matches', su, path)
            subs = []
            if k == 'TupleStruct':
                for i, q in enumerate(p['ps']):
                    v = su[1] if (isinstance(su, tuple) and su and su[0] in ('some', 'ok', 'err') and i == 0) else ('case', su, short, i)
                    if ov is not None and short == 'Some' and i == 0:
                        v = ov[1]
                    if view is not None and short == 'Some' and i == 0:
                        v = T.proj(v, view[2]) if view[0] == 'optproj' else T.substitute(view[2][2], {T.bv(view[2][1]): v})
                    c = self.full_pattern_cond(q, v)
                    if c is None:
                        return None
                    subs.append(c)
            elif k == 'Struct':
                for f in p['fields']:
                    v = ('case', su, short, int(f['name'])) if f['name'].isdigit() else T.fld(scrut, self.field_name(path, f['name']))
                    c = self.full_pattern_cond(f['p'], v)
                    if c is None:
                        return None
                    subs.append(c)
            return T.tand(base, *subs)
        return None

    def exhaust(self, cond, excluded):
        """drop `matches(x, V)` conjuncts that are implied because every other variant of V's enum was excluded for x"""
        def simp(c):
            if isinstance(c, tuple) and c and c[0] == 'matches':
                uni = self.variant_universe(c[2]) if '::' in c[2] else ({'Some', 'None'} if c[2] == 'Some' else {'Ok', 'Err'})
                ex = excluded.get(c[1], set())
                if uni and (uni - ex) == {c[2].split('::')[-1].split('(')[0]}:
                    return T.TRUE
                return c
            if isinstance(c, tuple) and c and c[0] == 'and':
                return T.tand(*[simp(x) for x in c[1]])
            return c
        return simp(cond)

    def decision_list(self, e, scrut, env, body, depth):
        arms = e['arms']
        conds = []
        for a in arms:
            c = self.full_pattern_cond(a['pat'], scrut)
            if c is None:
                return None
            conds.append(c)
        if not arms:
            return None
        excluded = {}
        eff = []
        vals = []
        earlier = []
        n = len(arms)
        for i, a in enumerate(arms):
            c = self.exhaust(conds[i], excluded)
            g = None
            env_a = dict(env)
            self.bind(a['pat'], scrut, env_a)
            if a.get('guard') is not None:
                g = self.with_pc([T.tnot(x) for x in earlier] + [c], lambda: self.ev(a['guard'], env_a, body, depth))
                if not T.is_bool(g):
                    return None
                c = T.tand(c, g)
            if i == n - 1 and g is None:
                c = T.TRUE           # the last arm of an exhaustive match
            c = T.simplify_under(c, [T.tnot(x) for x in earlier])
            vals.append(self.with_pc([T.tnot(x) for x in earlier] + [c], lambda: self.ev(a['body'], env_a, body, depth)))
            eff.append(c)
            earlier.append(c)
            # an arm that matches on one scrutinee component alone excludes those variants for later arms
            if g is None:
                atoms = conds[i][1] if isinstance(conds[i], tuple) and conds[i] and conds[i][0] == 'or' else (conds[i],)
                if all(isinstance(x, tuple) and x and x[0] == 'matches' for x in atoms) and len({x[1] for x in atoms}) == 1:
                    tgt = atoms[0][1]
                    excluded.setdefault(tgt, set()).update(x[2].split('::')[-1].split('(')[0] for x in atoms)
                elif isinstance(conds[i], tuple) and conds[i] and conds[i][0] == 'not' and isinstance(conds[i][1], tuple) and conds[i][1][0] == 'matches':
                    x = conds[i][1]
                    uni = {'Some', 'None'} if x[2] == 'Some' else ({'Ok', 'Err'} if x[2] == 'Ok' else None)
                    if uni:
                        excluded.setdefault(x[1], set()).update(uni - {x[2]})
        res = vals[-1]
        for i in range(n - 2, -1, -1):
            res = self.join(eff[i], vals[i], res)
        return res

    def pattern_cond(self, p, scrut):
        """condition under which an enum pattern matches; Option/Result have one canonical variant each"""
        fc = self.full_pattern_cond(p, scrut)
        if fc is not None:
            return fc
        k = self.patkey(p)
        if k == '_':
            return T.TRUE
        su = T.unroot(scrut)
        short = k.split('::')[-1]
        if short.startswith('None'):
            return T.tnot(('matches', su, 'std::prelude::v1::Some(_)'))
        if short.startswith('Some('):
            return ('matches', su, 'std::prelude::v1::Some(_)')
        if short.startswith('Err('):
            return T.tnot(('matches', su, 'std::prelude::v1::Ok(_)'))
        if short.startswith('Ok('):
            return ('matches', su, 'std::prelude::v1::Ok(_)')
        return ('matches', su, k)

    def bool_pattern(self, p, scrut):
        """condition under which a pattern made of bool literals / wildcards / tuples matches, or None"""
        k = p.get('k')
        if k in ('Wild',):
            return T.TRUE
        if k == 'Bind' and 'sub' not in p:
            return None
        if k == 'Lit' and p['lit'].get('lk') == 'Bool':
            b = T.unroot(scrut)
            if not T.is_bool(b):
                return None
            return b if p['lit'].get('v') else T.tnot(b)
        if k == 'Lit' and p['lit'].get('lk') == 'Int' and not p['lit'].get('neg') and self.numericish(scrut):
            return T.cmp('Eq', T.as_lin(scrut), T.const(int(p['lit']['v'])))
        if k == 'Tuple':
            cs = []
            for i, q in enumerate(p['ps']):
                c = self.bool_pattern(q, T.proj(scrut, i))
                if c is None:
                    return None
                cs.append(c)
            return T.tand(*cs)
        return None

    def ev_forloop(self, e, env, body, depth):
        # match IntoIterator::into_iter(x) { mut iter => loop { match next(&mut iter) {None=>break, Some(pat)=>body} } }
        scr = e['scrut']
        it = None
        if scr.get('k') == 'Call' and scr['args']:
            it = self.ev(scr['args'][0], env, body, depth)
        snapshot = dict(env)
        self.havoc(e, env)
        self.trace.append(('for', e, it))
        self.emit('loop', e, body, src='ForLoop', iter=it, env_before=snapshot)
        # find the `Some(pat) => body` arm of the inner match
        loopn = e['arms'][0]['body'] if e.get('arms') else None
        while loopn is not None and loopn.get('k') in ('DropTemps', 'Use'):
            loopn = loopn['e']
        arm = None
        if loopn is not None and loopn.get('k') == 'Loop':
            blk = loopn['body']
            cand = []
            if blk.get('expr') is not None:
                cand.append(blk['expr'])
            for st in blk['stmts']:
                if st['k'] in ('Expr', 'Semi'):
                    cand.append(st['e'])
            for c in cand:
                if c.get('k') == 'Match':
                    for a in c['arms']:
                        pk = a['pat'].get('k')
                        if pk == 'TupleStruct' and a['pat'].get('ps'):
                            arm = (a, a['pat']['ps'][0])
                        elif pk == 'Struct' and len(a['pat'].get('fields', [])) == 1:
                            arm = (a, a['pat']['fields'][0]['p'])
        if arm is not None:
            itn = self.as_iter(it) if it is not None else None
            item, facts = self.item_of(itn, e.get('_nid'))
            env_b = dict(env)
            self.bind(arm[1], item, env_b)
            self.loops.append(e)
            ev_mark = len(self.events)
            try:
                self.with_pc(facts, lambda: self.ev(arm[0]['body'], env_b, body, depth))
            finally:
                self.loops.pop()
            self.havoc(e, env)
            self.reduce_accumulators(e, itn, item, facts, snapshot, env, ev_mark)
            self.reduce_search(e, itn, item, facts, ev_mark)
            self.reduce_collector(e, itn, item, facts, snapshot, env, ev_mark)
        return ('unit',)

    def reduce_collector(self, loopnode, it, item, facts, before, env, ev_mark):
        """`let mut v = Vec::new(); for x in it { if stop(x, v.len()) { break } v.push(f(x)) }` collects
        it.enumerate().take_while(|(k, x)| !stop(x, k)).map(|(k, x)| f(x)): give v that value and mark the loop as reduced."""
        if it is None:
            return
        nid = loopnode.get('_nid')
        if any(x['kind'] == 'loop' and x['node'] is loopnode and x.get('reduced') for x in self.events):
            return
        inner = [x for x in self.events[ev_mark:] if x['depth'] == len(self.stack) and x['loops'] and x['loops'][-1] == nid]
        deeper = [x for x in self.events[ev_mark:] if nid in x['loops'] and (not x['loops'] or x['loops'][-1] != nid)]
        if deeper or any(x['kind'] in ('ret', 'assign', 'loop') for x in inner):
            return
        muts = [x for x in inner if x['kind'] == 'mutcall']
        brks = [x for x in inner if x['kind'] == 'break']
        if len(muts) != 1 or not muts[0]['callee'].endswith('::push') or any(b.get('value') is not None for b in brks):
            return
        pu = muts[0]
        lid = pu.get('target')
        if lid is None or '.' in str(pu.get('place', '')) or lid not in before or len(pu['args']) != 2:
            return
        init = T.unroot(before[lid])
        if not (isinstance(init, tuple) and init and init[0] == 'call' and isinstance(init[1], str) and
                (init[1].endswith('::new') or init[1].endswith('::with_capacity')) and 'Vec' in init[1]):
            return
        order = {id(x): i for i, x in enumerate(self.events)}
        if any(order[id(b)] > order[id(pu)] for b in brks):
            return      # an exit after the push keeps the item that triggered it: not a take_while
        base_pc = len(self.pc) + len([f for f in facts if f != T.TRUE])
        stops = []
        for b in brks:
            if len(b['pc']) < base_pc:
                return
            stops.append(T.tand(*b['pc'][base_pc:]) if b['pc'][base_pc:] else T.TRUE)
        extra = T.tand(*pu['pc'][base_pc:]) if pu['pc'][base_pc:] else T.TRUE
        if extra != T.TRUE and T.canon(extra) != T.canon(T.tnot(T.tor(*stops)) if stops else T.TRUE):
            return      # a push under a condition of its own is a filter, not handled here
        if not self.iterish(it):
            it = ('elems', T.unroot(it))
        d = self.bvd
        pair = T.bv(d)
        sub = self.item_abstraction(item, T.proj(pair, 1))
        if sub is None:
            return
        H = T.unroot(T.root(('havoc', lid, nid)))
        sub = dict(sub)
        sub[('len', H)] = T.proj(pair, 0)
        cont = T.substitute(T.tnot(T.tor(*stops)) if stops else T.TRUE, sub)
        val = T.substitute(pu['args'][1], sub)
        if T.mentions(cont, H) or T.mentions(val, H) or any(T.mentions(x, ('item', nid)) for x in (cont, val)):
            return
        src = ('enumerate', it)
        if cont != T.TRUE:
            src = ('take_while', src, ('lam', d, cont))
        env[lid] = ('map', src, ('lam', d, val))
        for x in self.events:
            if x['kind'] == 'loop' and x['node'] is loopnode:
                x['reduced'] = True

    def item_abstraction(self, item, x):
        """substitution expressing the loop's item roots through one value x (the item of the iterator)"""
        iu = T.unroot(item)
        if isinstance(iu, tuple) and iu and iu[0] in ('item', 'index_of'):
            return {iu: x}
        if isinstance(iu, tuple) and iu and iu[0] == 'tup':
            sub = {}
            for i, comp in enumerate(iu[1]):
                cu = T.unroot(comp)
                if isinstance(cu, tuple) and cu and cu[0] in ('item', 'index_of'):
                    sub[cu] = T.proj(x, i)
                elif isinstance(cu, tuple) and cu and cu[0] == 'tup':
                    inner = self.item_abstraction(comp, T.proj(x, i))
                    if inner is None:
                        return None
                    sub.update(inner)
                else:
                    return None
            return sub
        return None

    def reduce_search(self, loopnode, it, item, facts, ev_mark):
        """a `for` loop whose only effect is `if cond(item) { return v(item) }` is a search for the first matching item:
        first(it, cond); the function returns v(that item) if there is one"""
        if it is None:
            return
        nid = loopnode.get('_nid')
        inner = [x for x in self.events[ev_mark:] if x['depth'] == len(self.stack) and x['loops'] and x['loops'][-1] == nid]
        deeper = [x for x in self.events[ev_mark:] if nid in x['loops'] and (not x['loops'] or x['loops'][-1] != nid)]
        deeper = [x for x in deeper if x['kind'] in ('ret', 'assign', 'break', 'mutcall', 'loop')]
        inner = [x for x in inner if x['kind'] in ('ret', 'assign', 'break', 'mutcall', 'loop')]
        if deeper or len(inner) != 1 or inner[0]['kind'] != 'ret' or len(self.loops) > 0:
            return
        r = inner[0]
        base_pc = len(self.pc) + len([f for f in facts if f != T.TRUE])
        cond = T.tand(*r['pc'][base_pc:]) if len(r['pc']) >= base_pc else None
        if cond is None or cond == T.TRUE:
            return
        d = self.bvd
        sub = self.item_abstraction(item, T.bv(d))
        if sub is None:
            return
        F = ('first', it, ('lam', d, T.substitute(cond, sub)))
        hit = ('case', F, 'Some', 0)
        sub2 = self.item_abstraction(item, hit)
        val = T.substitute(r['value'], sub2)
        self.search_hit = (('matches', F, 'Some'), val)
        for x in self.events:
            if x['kind'] == 'loop' and x['node'] is loopnode:
                x['reduced'] = True
        r['joined'] = True

    def reduce_accumulators(self, loopnode, it, item, facts, before, env, ev_mark):
        """A `for` loop whose only effects are  acc = acc + g(item)  /  acc = max(acc, g(item))  /  acc = min(acc, g(item))
        (possibly under a condition on the item) computes  init + sum / max / min  over the iterator: give the
        accumulator that value instead of an unknown one, and mark the loop as reduced."""
        if it is None:
            return
        nid = loopnode.get('_nid')
        inner = [x for x in self.events[ev_mark:] if x['depth'] == len(self.stack) and x['loops'] and x['loops'][-1] == nid]
        deeper = [x for x in self.events[ev_mark:] if nid in x['loops'] and (not x['loops'] or x['loops'][-1] != nid)]
        if deeper or any(x['kind'] in ('ret', 'break', 'mutcall', 'loop') for x in inner):
            return
        assigns = [x for x in inner if x['kind'] == 'assign']
        if not assigns or any(x['fields'] for x in assigns):
            return
        by_local = {}
        for a in assigns:
            by_local.setdefault(a['local'], []).append(a)
        itemr = T.unroot(item)
        if not (isinstance(itemr, tuple) and itemr and itemr[0] == 'item'):
            # `for y in xs.map(f)`: the values in the loop are written over the item x of xs (y = f(x)); aggregate over xs
            itb = T.unroot(it)
            while isinstance(itb, tuple) and itb and itb[0] == 'map' and isinstance(itb[2], tuple) and itb[2][0] == 'lam':
                itb = T.unroot(itb[1])
            base_item = ('item', nid)
            if itb is T.unroot(it) or not isinstance(itb, tuple) or not itb or itb[0] in ('enumerate', 'zip') \
                    or T.unroot(self.item_of(it, nid)[0]) != itemr:
                return      # destructured items: not handled
            it, itemr = itb, base_item
        base_pc = len(self.pc) + len([f for f in facts if f != T.TRUE])
        results = {}
        for lid, asg in by_local.items():
            if len(asg) != 1 or lid not in before:
                return
            a = asg[0]
            H = T.root(('havoc', lid, nid))
            val = a['value']
            # the condition on the item: path condition beyond the loop's own facts
            cond = T.tand(*[c for c in a['pc'][base_pc:]]) if len(a['pc']) >= base_pc else None
            if cond is None or T.mentions(cond, T.unroot(H)):
                return
            # no other loop-carried variable may enter
            others = [T.unroot(T.root(('havoc', l2, nid))) for l2 in by_local if l2 != lid]
            if any(T.mentions(val, o) or T.mentions(cond, o) for o in others):
                return
            d = self.bvd
            sub = {itemr: T.bv(d)}
            vl = T.as_lin(val)
            rs = T.lin_roots(vl)
            Hr = T.unroot(H)
            if rs.get(Hr) == 1 and not any(r != Hr and T.mentions(r, Hr) for r in rs):
                g = T.substitute(T.sub(vl, H), sub)
                c = T.substitute(cond, sub)
                src = ('map', ('filter', it, ('lam', d, c)), ('lam', d, g)) if c != T.TRUE else ('map', it, ('lam', d, g))
                results[lid] = T.add(before[lid], T.root(('sum', self.norm_sum_iter(src))))
                continue
            vu = T.unroot(val)
            if isinstance(vu, tuple) and vu and vu[0] in ('min', 'max') and len(vu[1]) == 2 and H in vu[1]:
                other = [x for x in vu[1] if x != H][0]
                if T.mentions(other, Hr):
                    return
                g = T.substitute(other, sub)
                c = T.substitute(cond, sub)
                src = ('map', ('filter', it, ('lam', d, c)), ('lam', d, g)) if c != T.TRUE else ('map', it, ('lam', d, g))
                agg = T.root(('minof' if vu[0] == 'min' else 'maxof', src))
                results[lid] = (T.tmin if vu[0] == 'min' else T.tmax)(before[lid], agg)
                continue
            return
        for lid, v in results.items():
            env[lid] = v
        for x in self.events:
            if x['kind'] == 'loop' and x['node'] is loopnode:
                x['reduced'] = True

    def item_of(self, it, nid):
        """(term, facts) describing an arbitrary item of iterator term `it`"""
        it = T.unroot(it) if it is not None else None
        if not isinstance(it, tuple) or not it:
            return T.root(('item', nid)), []
        tag = it[0]
        if tag == 'enumerate':
            x, f = self.item_of(it[1], nid)
            return T.tup(T.root(('index_of', nid)), x), f
        if tag == 'map' and it[2][0] == 'lam':
            x, f = self.item_of(it[1], nid)
            return T.substitute(it[2][2], {T.bv(it[2][1]): x}), f
        if tag in ('rev', 'dedup', 'skip', 'take', 'step_by', 'sorted', 'cycle', 'skip_while'):
            return self.item_of(it[1], nid)
        x = T.root(('item', nid))
        return x, self.item_facts(it, x)

    def havoc(self, loopnode, env):
        elem_only = self.element_only_assigned(loopnode)
        for lid in self.assigned_locals(loopnode):
            if lid in env:
                cur = T.unroot(env[lid])
                if lid in elem_only:
                    # only elements are overwritten inside the loop: the length is that of the value before
                    base = cur[1] if isinstance(cur, tuple) and cur and cur[0] == 'elemhavoc' else cur
                    env[lid] = ('elemhavoc', base, lid, loopnode.get('_nid'))
                else:
                    env[lid] = T.root(('havoc', lid, loopnode.get('_nid')))

    def element_only_assigned(self, n):
        """locals whose only mutation inside n is `local[i] = ..` / `local[i] op= ..`"""
        from .facts import walk
        elem, other = set(), set()
        for x in walk(n):
            k = x.get('k')
            if k in ('Assign', 'AssignOp'):
                l = x['l']
                r = self.place_root(l)
                if r is None:
                    continue
                if l.get('k') == 'Index' and l['e'].get('k') == 'Path':
                    elem.add(r)
                else:
                    other.add(r)
            elif k == 'AddrOf' and x.get('mut'):
                r = self.place_root(x['e'])
                if r is not None:
                    other.add(r)
            elif k == 'MethodCall':
                adj = x['recv'].get('adj') or []
                if any('Mut' in a and 'Borrow' in a for a in adj) or x.get('recv_ty', '').startswith('&mut'):
                    r = self.place_root(x['recv'])
                    if r is not None:
                        # IndexMut through a method (VecDeque) is still an element write; anything else is not
                        if not (x.get('callee') or '').endswith('index_mut'):
                            other.add(r)
        return elem - other

    def ev_Loop(self, e, env, body, depth):
        snapshot = dict(env)
        derived = self.derived_loop_vars(e, snapshot, body, depth)
        self.havoc(e, env)
        env.update(derived)
        self.trace.append(('loop', e, None))
        mark = len(self.events)
        self.emit('loop', e, body, src=e.get('src'), env_before=snapshot, env_head=dict(env), derived=tuple(sorted(derived)))
        self.loops.append(e)
        try:
            self.ev(e['body'], dict(env), body, depth)
        finally:
            self.loops.pop()
        for x in self.events[mark:]:
            if x['kind'] == 'assign' and x.get('local') in derived and not x.get('fields') and e.get('_nid') in x['loops']:
                x['derived'] = True     # re-establishes v = F(t) for the next iteration: not an independent effect
        self.havoc(e, env)
        env.update(derived)
        return ('loopval', e.get('_nid'))

    def derived_loop_vars(self, e, snapshot, body, depth):
        """loop-carried locals that are a function of another one at every loop head:  v is initialised to F(t0) and the
        only assignment to v in the body stores F(t') right where t' is stored into t (the `primed` form of a loop that
        recomputes F(t) at the top of each iteration).  Returns {local id: F(t at the loop head)}."""
        if getattr(self, '_probing', 0) >= 2:
            return {}
        nid = e.get('_nid')
        env = dict(snapshot)
        self.havoc(e, env)
        carried = [lid for lid in sorted(self.assigned_locals(e)) if lid in env and T.unroot(env[lid]) == ('havoc', lid, nid)]
        if len(carried) < 2:
            return {}
        marks = (len(self.events), len(self.trace), len(self.pc), len(self.unknown))
        saved_hit = getattr(self, 'search_hit', None)
        saved_refs = dict(self.refs)
        self._probing = getattr(self, '_probing', 0) + 1
        self.loops.append(e)
        try:
            self.ev(e['body'], dict(env), body, depth)
            probe = self.events[marks[0]:]
        except RecursionError:
            probe = []
        finally:
            self.loops.pop()
            self._probing -= 1
            del self.events[marks[0]:]
            del self.trace[marks[1]:]
            del self.pc[marks[2]:]
            del self.unknown[marks[3]:]
            self.search_hit = saved_hit
            self.refs = saved_refs
        level = tuple(l.get('_nid') for l in self.loops) + (nid,)
        here = len(self.stack)
        asg, dirty = {}, set()
        for x in probe:
            if x['kind'] == 'assign' and x.get('local') in carried:
                if x['depth'] != here or x['loops'] != level or x.get('fields'):
                    dirty.add(x['local'])
                asg.setdefault(x['local'], []).append(x)
            if x['kind'] == 'mutcall' and x.get('target') in carried:
                dirty.add(x['target'])
        ok = [l for l in carried if l not in dirty and len(asg.get(l, [])) == 1]
        out = {}
        X = ('derivedarg',)
        mine = lambda t: any(isinstance(y, tuple) and len(y) == 3 and y[0] == 'havoc' and y[2] == nid for y in T.subterms(t))
        for v in ok:
            vs = asg[v][0]['value']
            if not self.numericish(vs):
                continue
            for t in ok:
                if t == v or t in out or asg[t][0]['pc'] != asg[v][0]['pc']:
                    continue
                vt = asg[t][0]['value']
                if not self.numericish(vt) or vt == T.as_lin(T.root(('havoc', t, nid))):
                    continue
                F = T.substitute(T.as_lin(vs), {T.as_lin(vt): T.root(X), T.unroot(T.as_lin(vt)): T.root(X)})
                if not T.mentions(F, X) or mine(F):
                    continue
                i_v, i_t = snapshot.get(v), snapshot.get(t)
                if i_v is None or i_t is None or not self.numericish(i_v) or not self.numericish(i_t):
                    continue
                if T.as_lin(T.substitute(F, {X: T.as_lin(i_t)})) == T.as_lin(i_v):
                    out[v] = T.as_lin(T.substitute(F, {X: T.root(('havoc', t, nid))}))
                    break
        return out

    def ev_Assign(self, e, env, body, depth):
        v = self.ev(e['r'], env, body, depth)
        self.assign(e['l'], v, env, body, depth)
        return ('unit',)

    def ev_AssignOp(self, e, env, body, depth):
        l = self.ev(e['l'], env, body, depth)
        r = self.ev(e['r'], env, body, depth)
        op = e['op'].replace('Assign', '')
        if e.get('lty') not in ('f64', 'f32'):
            self.site(op, e, l, r, body)
        v = self.arith(op, l, r, e)
        self.assign(e['l'], v, env, body, depth)
        return ('unit',)

    def assign(self, place, v, env, body, depth):
        # `*r = v` where r holds a mutable reference to an element of a collection
        q = place
        while q.get('k') in ('DropTemps', 'Use'):
            q = q['e']
        if q.get('k') == 'Unary' and q.get('op') == 'Deref' and q['e'].get('k') == 'Path' and q['e'].get('res') == 'Local':
            tgt = self.refs.get(T.as_lin(env.get(q['e']['id']))) if q['e']['id'] in env and self.numericish(env[q['e']['id']]) else None
            if tgt is not None:
                coll, ix = tgt
                self.emit('assign', place, body, local=self.place_root(coll), name=self.place_text(coll) + '[' + T.show(ix) + ']',
                          fields=('[]',), value=v)
                return
        # local or field-of-local
        p = place
        fields = []
        while True:
            k = p.get('k')
            if k == 'Path' and p.get('res') == 'Local':
                break
            if k == 'Field':
                bty = adt_head(strip_refs(p.get('base_ty', '')))
                if bty.startswith('std::boxed::Box'):
                    bty = strip_refs(p.get('base_ty', ''))[len('std::boxed::Box<'):].rsplit('>', 1)[0].split(',')[0].split('<')[0]
                if not (bty in self.newtypes and self.newtypes[bty] == p['name']):
                    fields.append(self.field_name(bty, p['name']))
                p = p['e']
            elif k in ('DropTemps', 'Use', 'AddrOf') or (k == 'Unary' and p.get('op') == 'Deref'):
                p = p['e']
            elif k == 'Index':
                ix = self.ev(p['i'], env, body, depth)
                self.emit('assign', place, body, local=self.place_root(p['e']), name=self.place_text(p['e']) + '[' + T.show(ix) + ']',
                          fields=('[]',), value=v)
                return
            else:
                return
        lid = p['id']
        self.emit('assign', place, body, local=lid, name=p.get('name'), fields=tuple(reversed(fields)), value=v)
        if not fields:
            env[lid] = v
            return
        cur = env.get(lid, ('free', p['name'], lid))
        cur = self.as_struct_literal(cur, place, fields)
        env[lid] = self.update_field(cur, list(reversed(fields)), v)

    def as_struct_literal(self, cur, place, fields):
        """`x.f = v` on a value x of a known struct type: write x as the struct literal of its fields first, so that
        copy-and-update and construction from the parts are one term"""
        cu = T.unroot(cur)
        if isinstance(cu, tuple) and cu and cu[0] in ('struct', 'upd') or len(fields) != 1:
            return cur
        q = place
        while q.get('k') in ('DropTemps', 'Use'):
            q = q['e']
        if q.get('k') != 'Field':
            return cur
        bty = strip_refs(q.get('base_ty', ''))
        if bty.startswith('std::boxed::Box<'):
            bty = bty[len('std::boxed::Box<'):].rsplit('>', 1)[0].split(',')[0]
        adt = self.crate.adts.get(adt_head(bty))
        if not adt or adt.get('kind') != 'Struct' or len(adt.get('variants', [])) != 1:
            return cur
        names = [f['name'] for f in adt['variants'][0]['fields']]
        if not names or any(n.isdigit() for n in names) or adt_head(bty) in self.newtypes:
            return cur
        return T.struct(adt_head(bty), {self.field_name(adt_head(bty), n): T.fld(cur, self.field_name(adt_head(bty), n)) for n in names})

    def update_field(self, cur, fields, v):
        f = fields[0]
        inner = v if len(fields) == 1 else self.update_field(T.fld(cur, f), fields[1:], v)
        cur = T.unroot(cur)
        if isinstance(cur, tuple) and cur and cur[0] == 'struct':
            d = dict(cur[2])
            d[f] = inner
            return T.struct(cur[1], d)
        if isinstance(cur, tuple) and cur and cur[0] == 'upd':
            d = dict(cur[2])
            d[f] = inner
            return ('upd', cur[1], tuple(sorted(d.items())))
        return ('upd', cur, ((f, inner),))

    def ev_Ret(self, e, env, body, depth):
        v = self.ev(e['e'], env, body, depth) if e.get('e') else ('unit',)
        self.emit('ret', e, body, value=v)
        return ('ret', v)

    def ev_Break(self, e, env, body, depth):
        if e.get('e') is not None:
            v = self.ev(e['e'], env, body, depth)
            self.emit('break', e, body, value=v)
        else:
            self.emit('break', e, body)
        return ('unit',)

    def ev_Continue(self, e, env, body, depth):
        return ('unit',)

    def ev_ConstBlock(self, e, env, body, depth):
        return ('opaque', 'ConstBlock', e.get('_nid'))

    # ---------------------------------------------------------------- arithmetic
    def arith(self, op, l, r, e):
        if op in ('Add', 'Sub', 'Mul', 'Div', 'Rem'):
            if not (self.numericish(l) and self.numericish(r)):
                return T.call('op:' + op, l, r)
            if op == 'Add':
                return T.add(l, r)
            if op == 'Sub':
                return T.sub(l, r)
            if op == 'Mul':
                return T.mul(l, r)
            if op == 'Div':
                return T.div(l, r)
            return T.rem(l, r)
        if op in ('Lt', 'Le', 'Gt', 'Ge', 'Eq', 'Ne'):
            if self.numericish(l) and self.numericish(r):
                return T.cmp(op, l, r)
            if op == 'Eq':
                pair = sorted([T.unroot(l), T.unroot(r)], key=T.key)
                return ('eq', pair[0], pair[1])
            if op == 'Ne':
                pair = sorted([T.unroot(l), T.unroot(r)], key=T.key)
                return T.tnot(('eq', pair[0], pair[1]))
            return ('cmp', op, T.unroot(l), T.unroot(r))
        if op == 'And':
            return T.tand(self.boolish(l), self.boolish(r))
        if op == 'Or':
            return T.tor(self.boolish(l), self.boolish(r))
        return T.call('op:' + op, l, r)

    def boolish(self, b):
        b = T.unroot(b)
        return b

    def numericish(self, t):
        if T.is_lin(t):
            return True
        if isinstance(t, tuple) and t and t[0] in ('p', 'v', 'bv', 'f', 'call', 'case', 'idx', 'free', 'havoc', 'try',
                                                    'unwrap', 'optor', 'pos', 'min', 'max', 'sum', 'maxof', 'minof',
                                                    'const', 'len', 'cast', 'patbind', 'count', 'mutvar', 'last',
                                                    'match', 'apply', 'ite', 'nextof', 'peek', 'lit'):
            return True
        return False

    def ev_Binary(self, e, env, body, depth):
        l = self.ev(e['l'], env, body, depth)
        op = e['op']
        # short-circuit operators: the right operand is evaluated under the left one
        if op == 'And' and T.is_bool(l):
            r = self.with_pc([l], lambda: self.ev(e['r'], env, body, depth))
        elif op == 'Or' and T.is_bool(l):
            r = self.with_pc([T.tnot(l)], lambda: self.ev(e['r'], env, body, depth))
        else:
            r = self.ev(e['r'], env, body, depth)
        if 'callee' in e and not (self.is_numeric_ty(e.get('lty', '')) or e.get('lty') in ('f64', 'f32', 'bool')):
            # overloaded operator on a non-numeric type
            if op in ('Eq', 'Ne', 'Lt', 'Le', 'Gt', 'Ge'):
                return self.arith(op, l, r, e)
            return T.call(e['callee'], l, r)
        if e.get('lty') in ('f64', 'f32'):
            if op in ('Lt', 'Le', 'Gt', 'Ge', 'Eq', 'Ne'):
                return ('fcmp', op, T.unroot(l), T.unroot(r))     # a condition, kept exactly as written (no float reasoning)
            return T.root(('fop', op, T.unroot(l), T.unroot(r)))
        self.site(op, e, l, r, body)
        return self.arith(op, l, r, e)

    def site(self, op, e, l, r, body):
        if op == 'Sub':
            self.emit('sub', e, body, a=l, b=r, lty=e.get('lty'))
        elif op in ('Div', 'Rem'):
            self.emit('div', e, body, a=l, b=r, lty=e.get('lty'))
        elif op in ('Add', 'Mul'):
            self.emit('addmul', e, body, a=l, b=r, lty=e.get('lty'))

    # ---------------------------------------------------------------- calls
    def ctor(self, path, args):
        short = path.split('::')[-1]
        if short == 'Some' and len(args) == 1:
            return ('some', args[0])
        if short == 'Ok' and len(args) == 1:
            return ('ok', args[0])
        if short == 'Err' and len(args) == 1:
            return ('err', args[0])
        if path in self.newtypes and len(args) == 1:
            return args[0]
        return self.eta_struct(path, {self.field_name(path, str(i)): a for i, a in enumerate(args)})

    def ev_Call(self, e, env, body, depth):
        f = e['f']
        args = [self.ev(a, env, body, depth) for a in e['args']]
        fp = e.get('fnpath')
        if fp is not None and fp.get('res') == 'Def':
            dk = fp.get('defkind', '')
            if dk.startswith('Ctor'):
                return self.ctor(fp.get('ctor_of', fp['def']), args)
            if dk in ('Fn', 'AssocFn'):
                v = self.ufcs_delegation(fp, args, e, body, depth)
                if v is not None:
                    return v
                return self.call_fn(fp['def'], fp.get('targs', []), args, e, body, depth)
        if fp is not None and fp.get('res') == 'SelfCtor':
            return self.ctor(adt_head(strip_refs(e.get('ty', fp.get('def', '?')))), args)
        fv = self.ev(f, env, body, depth)
        return self.apply(fv, args, depth)

    def ufcs_delegation(self, fp, args, e, body, depth):
        """`<S as Trait>::m(x, ..)` inside the implementation of Trait::m for another type: the same delegation as
        `x.m(..)` with a receiver of type S (e.g. the Vec<T> impl forwarding to the [T] impl)"""
        if body is None or not body.raw.get('impl_trait') or not fp.get('local') or not fp.get('targs'):
            return None
        tr = body.raw['impl_trait']
        name = body.raw.get('assoc_name')
        if fp.get('def') != f'{tr}::{name}':
            return None
        import re as _re
        ty = strip_refs(fp['targs'][0])
        for imp in self.crate.impls:
            if imp.get('trait') == tr and _re.sub(r'/#\d+', '', strip_refs(imp.get('self_ty', ''))) == ty:
                for it in imp['items']:
                    if it['name'] == name:
                        b = self.crate.body(it['path'])
                        if b is None or b is body or depth >= self.max_depth or it['path'] in [c for c, _, _ in self.stack]:
                            return None
                        if self.has_loop(b):
                            return self.try_inline_loop_fn(b, it['path'], args, e, body, depth)
                        self.stack.append((it['path'], e, body))
                        try:
                            return self.unwrap_ret(self.eval_body(b, args, depth + 1))
                        finally:
                            self.stack.pop()
        return None

    def static_impl(self, e, by_head=False):
        """the implementation a trait-method call is statically dispatched to, when the receiver's type is literally the
        self type of one of the crate's impls (e.g. a Vec<T> method delegating to the [T] impl)"""
        tr = e.get('callee_trait')
        if not tr or not e.get('callee_local'):
            return None
        import re as _re
        ty = strip_refs(e.get('recv_ty', ''))
        for sub in reversed(self.tysubst):
            if ty in sub:       # the receiver's type is a type parameter of a generic function evaluated in place
                ty = strip_refs(sub[ty])
                break
        for imp in self.crate.impls:
            sty = _re.sub(r'/#\d+', '', strip_refs(imp.get('self_ty', '')))
            same = sty == ty
            if not same and by_head and '::' in ty and ty.split('<')[0] == sty.split('<')[0] and ty.split('<')[0] in self.crate.adts:
                same = True     # an instance of a generic struct of this crate
            if imp.get('trait') == tr and same:
                for it in imp['items']:
                    if it['name'] == e.get('name'):
                        return it['path']
        return None

    def ev_MethodCall(self, e, env, body, depth):
        recv = self.ev(e['recv'], env, body, depth)
        args = [recv] + [self.ev(a, env, body, depth) for a in e['args']]
        callee = e.get('callee') or ('?::' + e['name'])
        # delegation between implementations of one trait method (e.g. the Vec<T> impl calling the [T] impl)
        same_method = body is not None and body.raw.get('impl_trait') == e.get('callee_trait') and body.raw.get('assoc_name') == e.get('name')
        impl_path = self.static_impl(e) if same_method else None
        if impl_path is not None:
            b = self.crate.body(impl_path)
            if b is not None and b is not body and depth < self.max_depth and impl_path not in [c for c, _, _ in self.stack]:
                if self.has_loop(b):
                    # inlined exactly when every loop of the implementation reduces (so a loop and the iterator chain
                    # it is equivalent to are treated alike)
                    v = self.try_inline_loop_fn(b, impl_path, args, e, body, depth)
                    if v is not None:
                        return v
                else:
                    self.stack.append((impl_path, e, body))
                    try:
                        return self.unwrap_ret(self.eval_body(b, args, depth + 1))
                    finally:
                        self.stack.pop()
        if impl_path is None and not same_method and body is not None and e.get('callee_trait') and e.get('callee_local'):
            # a trait method called on a receiver whose type is a concrete type of the crate (another method of the same
            # trait on the impl's own type; `Slice::of(ts).service_needed(d)`): statically dispatched; inlined when the target
            # is a plain expression (no branching, no panic-capable site, no loop)
            ip = self.static_impl(e, by_head=True)
            b2 = self.crate.body(ip) if ip else None
            if b2 is not None and b2 is not body and not self.has_loop(b2) and depth < self.max_depth and ip not in [c for c, _, _ in self.stack]:
                mark = len(self.events)
                self.stack.append((ip, e, body))
                try:
                    v = self.unwrap_ret(self.eval_body(b2, args, depth + 1))
                finally:
                    self.stack.pop()
                plain = not any(isinstance(y, tuple) and y and y[0] in ('ite', 'match') for y in T.subterms(v)) and \
                    not any(x['kind'] in ('ret', 'panic', 'assign', 'mutcall', 'unwrap', 'index') and T.FALSE not in x['pc'] for x in self.events[mark:])
                own_type = body.raw.get('impl_trait') == e.get('callee_trait')
                # outside an impl of the trait, only *compositions* are seen through (a value expressed by the same trait's
                # methods on the components, e.g. Slice / Aggregate); a leaf model (RBF) stays the abstraction the equations
                # are written over
                composed = any(isinstance(y, tuple) and len(y) == 3 and y[0] == 'call' and isinstance(y[1], str) and y[1].startswith(e['callee_trait'] + '::')
                               for y in T.subterms(v))
                # .. and a crate-private trait is an implementation detail, never an abstraction the equations are written over
                private_trait = str(b2.raw.get('vis', '')).startswith('Restricted')
                if plain and (own_type or composed or private_trait):
                    return v
                del self.events[mark:]
        adj = e['recv'].get('adj') or []
        if e['name'] in ('sort', 'sort_unstable') and ('slice' in callee or 'Vec' in callee) and not e['args']:
            # in-place sort of a local collection: the local now holds the sorted sequence
            lid = self.place_root(e['recv'])
            if lid is not None and lid in env and e['recv'].get('k') in ('Path',) or (lid is not None and lid in env and self.place_text(e['recv']).count('.') == 0):
                env[lid] = ('sorted', self.as_iter(recv))
                return ('unit',)
        noted = None
        if (any('Mut' in a and 'Borrow' in a for a in adj) or e.get('recv_ty', '').startswith('&mut')) \
                and not (callee.startswith('std::iter::Iterator::') and e['recv'].get('k') == 'MethodCall') \
                and not (e['name'] == 'get_mut' and ('slice' in callee or 'Vec' in callee)):
            noted = self.emit('mutcall', e, body, callee=callee, args=tuple(args), target=self.place_root(e['recv']),
                              place=self.place_text(e['recv']))
        elif e.get('callee_local'):
            noted = self.emit('call', e, body, callee=callee, args=tuple(args))
        self.was_transparent = False
        v = self.call_fn(callee, e.get('targs', []), args, e, body, depth)
        if self.was_transparent and noted is not None:
            # the callee was evaluated in place: its effects are listed themselves, the call is not an effect of its own
            self.events[:] = [x for x in self.events if x is not noted]
        if self.was_transparent:
            for i, final in getattr(self, 'transparent_out', []):
                self.write_back(e['recv'] if i == 0 else e['args'][i - 1], final, env)
            self.transparent_out = []
        self.was_transparent = False
        return v

    def write_back(self, place, v, env):
        """the value a callee evaluated in place left behind a `&mut` argument becomes the value of the caller's place
        (no event: the callee's own assignments are already recorded)"""
        p = place
        fields = []
        while True:
            k = p.get('k')
            if k == 'Path' and p.get('res') == 'Local':
                break
            if k == 'Field':
                bty = adt_head(strip_refs(p.get('base_ty', '')))
                if not (bty in self.newtypes and self.newtypes[bty] == p['name']):
                    fields.append(self.field_name(bty, p['name']))
                p = p['e']
            elif k in ('DropTemps', 'Use', 'AddrOf') or (k == 'Unary' and p.get('op') == 'Deref'):
                p = p['e']
            else:
                return
        lid = p['id']
        if not fields:
            env[lid] = v
        else:
            cur = env.get(lid, ('free', p['name'], lid))
            env[lid] = self.update_field(cur, list(reversed(fields)), v)

    def place_text(self, e):
        parts = []
        while True:
            k = e.get('k')
            if k == 'Path':
                parts.append(e.get('name', '?'))
                break
            if k == 'Field':
                parts.append(e['name'])
                e = e['e']
            elif k in ('Index', 'DropTemps', 'Use', 'AddrOf') or (k == 'Unary' and e.get('op') == 'Deref'):
                e = e['e']
            elif k == 'MethodCall':
                parts.append(e['name'] + '()')
                e = e['recv']
            else:
                parts.append('?')
                break
        return '.'.join(reversed(parts))

    def iterish(self, t):
        t = T.unroot(t)
        return isinstance(t, tuple) and bool(t) and t[0] in ITER_TAGS

    def as_iter(self, t):
        t = T.unroot(t)
        if self.iterish(t):
            return t
        ov = self.opt_view(t) if isinstance(t, tuple) and t and t[0] in ('first', 'last', 'front', 'back', 'optidx', 'csub', 'boolthen') else None
        if ov is not None and t[0] == 'boolthen':
            # `c.then_some(x).into_iter()` is `once(x).filter(|_| c)`
            return ('filter', ('once', ov[1]), ('lam', self.bvd, ov[0]))
        if ov is not None:
            return ('optiter', ov[0], ov[1])     # an Option iterated: its payload once if it is Some
        if isinstance(t, tuple) and len(t) == 2 and t[0] == 'arr' and 1 <= len(t[1]) <= 4:
            # a short array literal iterated by value: once(a).chain(once(b))..
            it = ('once', t[1][0])
            for x in t[1][1:]:
                it = ('chain', it, ('once', x))
            return it
        return ('elems', t)

    def call_fn(self, path, targs, args, node, body, depth):
        name = path.split('::')[-1]
        a0 = args[0] if args else None

        # --- erasures
        if path in ERASE_METHODS:
            if name == 'collect' and node is not None:
                self.emit('consume', node, body, it=self.as_iter(a0), consumer='collect')
            return a0
        if name in ('from', 'into') and path in ('std::convert::From::from', 'std::convert::Into::into'):
            # conversions among numeric-like types are the identity
            tys = [strip_refs(t) for t in targs]
            if len(tys) > 1 and tys[1] == 'bool' and T.is_bool(T.unroot(a0)) and self.is_numeric_ty(tys[0]):
                return T.ind(T.unroot(a0))      # usize::from(b) is `b as usize`
            if tys and all(self.is_numeric_ty(t) for t in tys[:2]):
                return a0
            to = tys[0] if tys else '?'
            frm = tys[1] if len(tys) > 1 else '?'
            imp = self.find_impl_method('std::convert::From', to, frm, 'from')
            if imp is not None and depth < self.max_depth:
                return self.eval_body(imp, args, depth + 1)
            return T.call('From::from<' + to + '>', *args)
        if path == 'std::iter::FromIterator::from_iter':
            if node is not None:
                self.emit('consume', node, body, it=self.as_iter(a0), consumer='from_iter')
            tys = [strip_refs(t) for t in targs]
            if tys and tys[0].startswith('std::vec::Vec'):
                return a0
            return T.call(path + '<' + (tys[0] if tys else '?') + '>', *args)

        # --- operator traits called as methods (derive_more expands `a + b` to `a.val.add(b.val)`)
        if path.startswith('std::ops::') and len(args) == 2 and name in ('add', 'sub', 'mul', 'div', 'rem') \
                and self.numericish(args[0]) and self.numericish(args[1]) and (node is None or self.is_numeric_ty((node.get('recv_ty') or '').replace('&', ''))):
            op = name.capitalize()
            if node is not None:
                self.site(op, node, args[0], args[1], body)
            return self.arith(op, args[0], args[1], node or {})
        # --- numeric primitives
        if name == 'div_ceil' and len(args) == 2 and (path.startswith('core::num') or path.startswith('std::num') or '::num::' in path):
            # a.div_ceil(b)  ==  a / b + [a % b != 0]
            q = T.div(args[0], args[1])
            if node is not None:
                self.site('Div', node, args[0], args[1], body)
            return T.add(q, T.ind(T.tnot(T.eq0(T.rem(args[0], args[1])))))
        if name == 'saturating_sub' and len(args) == 2 and (path.startswith('core::num') or path.startswith('std::num') or '::num::' in path):
            return T.pos(T.sub(args[0], args[1]))
        if name == 'checked_sub' and len(args) == 2 and (path.startswith('core::num') or path.startswith('std::num') or '::num::' in path):
            return ('csub', T.as_lin(args[0]), T.as_lin(args[1]))
        if path in ('std::cmp::min', 'std::cmp::Ord::min') and len(args) == 2:
            return T.tmin(args[0], args[1])
        if path in ('std::cmp::max', 'std::cmp::Ord::max') and len(args) == 2:
            return T.tmax(args[0], args[1])
        if path == 'std::ptr::eq':
            pair = sorted([T.unroot(args[0]), T.unroot(args[1])], key=T.key)
            return ('ptreq', pair[0], pair[1])

        # --- iterator sources
        if name in ('iter', 'iter_mut') and len(args) == 1 and ('slice' in path or 'Vec' in path or 'VecDeque' in path or 'collections' in path):
            return self.as_iter(a0)
        if path == 'std::iter::once':
            return ('once', args[0])
        if path == 'std::iter::empty':
            return ('empty',)
        if path == 'std::iter::repeat':
            return ('repeat', args[0])
        if path.endswith('RangeInclusive::<Idx>::new') or path.endswith('RangeInclusive::new'):
            return ('range', args[0], T.add(args[1], T.const(1)))

        # --- iterator adaptors (std::iter::Iterator::*, itertools::Itertools::*)
        is_iter_method = path.startswith('std::iter::Iterator::') or path.startswith('itertools::Itertools::') \
            or path.startswith('std::iter::DoubleEndedIterator::') or path.startswith('itertools::')
        if is_iter_method and self.bvd > 0:
            # an iterator value built in an outer scope (e.g. a collected Vec) may carry lambda binders numbered below the
            # binders of the closure it is now used in: renumber them past the current depth (no capture)
            args = [self.fresh_binders(a) if i == 0 or name in BINARY_STAGES else a for i, a in enumerate(args)]
            a0 = args[0] if args else None
        if is_iter_method:
            if name in LAMBDA_STAGES and len(args) == 2:
                it0 = self.as_iter(a0)
                if name == 'map' and isinstance(it0, tuple) and it0 and it0[0] == 'map' and it0[2][0] == 'lam' and self.closure_obj(args[1]) is not None:
                    # map over a map: apply the closure to the inner body directly, so that the arithmetic it does is
                    # recorded over the underlying items (e.g. windows of a slice -> elements of the slice)
                    d0 = it0[2][1]
                    old = self.bvd
                    self.bvd = max(self.bvd, d0 + 1, self.closure_obj(args[1]).bvd)
                    try:
                        facts = self.item_facts(it0[1], T.as_lin(T.bv(d0)))
                        inner = self.with_pc(facts, lambda: self.apply(args[1], [it0[2][2]], depth))
                    finally:
                        self.bvd = old
                    return self.stage('map', it0[1], ('lam', d0, inner))
                return self.stage(name, it0, self.lam(args[1], depth, 1, it0))
            if name in COUNT_STAGES and len(args) == 2:
                return self.count_stage(name, self.as_iter(a0), args[1])
            if name in PLAIN_STAGES and len(args) == 1:
                return (name, self.as_iter(a0))
            if name in BINARY_STAGES and len(args) == 2:
                a, b2 = self.as_iter(a0), self.as_iter(args[1])
                if name == 'zip' and not (b2[0] == 'map' and b2[1] == a):
                    ia, ib = self.indexed(a), self.indexed(b2)
                    if ia is not None and ib is not None:
                        # both sides are indexable: the k-th pair is (a_k, b_k) for k below the shorter length
                        d = self.bvd
                        return ('map', ('range', T.const(0), T.tmin(ia[0], ib[0])), ('lam', d, T.tup(ia[1], ib[1])))
                if name == 'zip' and b2[0] == 'map' and b2[1] == a and b2[2][0] == 'lam':
                    d = b2[2][1]
                    return ('map', a, ('lam', d, T.tup(T.bv(d), b2[2][2])))
                if name == 'chain' and a[0] == 'once' and b2[0] == 'map' and isinstance(b2[1], tuple) and b2[1] and b2[1][0] == 'range':
                    # a first item put in front of a sequence that is already written by index (e.g. the differences of the
                    # windows of a slice): written by index as a whole
                    ix = self.indexed(('chain', a, b2))
                    if ix is not None:
                        d = self.bvd
                        return ('map', ('range', T.const(0), ix[0]), ('lam', d, ix[1]))
                return (name, a, b2)
            if name == 'tee':
                it = self.as_iter(a0)
                return T.tup(it, it)
            if name in ('sum', 'product', 'max', 'min', 'max_by', 'min_by', 'count', 'last', 'next', 'peek', 'any', 'all',
                        'collect', 'fold', 'reduce', 'for_each', 'find', 'position', 'nth') and node is not None:
                self.emit('consume', node, body, it=self.as_iter(a0), consumer=name)
            if name == 'sum':
                return T.root(('sum', self.norm_sum_iter(self.as_iter(a0))))
            if name == 'product':
                return T.root((name, self.as_iter(a0)))
            if name == 'fold' and len(args) == 3:
                it0 = self.as_iter(a0)
                lam2 = self.lam(args[2], depth, 2)
                d = lam2[1]
                bodyl = T.as_lin(lam2[2])
                acc = T.bv(d)
                rs = T.lin_roots(bodyl)
                if rs.get(acc) == 1 and not any(r != acc and T.mentions(r, acc) for r in rs):
                    # fold(init, |acc, x| acc + g(x))  ==  init + sum(map(it, g))
                    g = T.sub(bodyl, T.root(acc))
                    g = T.substitute(g, {T.bv(d + 1): T.bv(d)})
                    mapped = it0 if g == T.as_lin(T.bv(d)) else ('map', it0, ('lam', d, g))
                    return T.add(args[1], T.root(('sum', self.norm_sum_iter(mapped))))
                bu = T.unroot(lam2[2])
                if isinstance(bu, tuple) and bu and bu[0] in ('min', 'max') and T.as_lin(acc) in bu[1] and len(bu[1]) == 2:
                    other = [x for x in bu[1] if x != T.as_lin(acc)][0]
                    if not T.mentions(other, acc):
                        g = T.substitute(other, {T.bv(d + 1): T.bv(d)})
                        agg = ('minof' if bu[0] == 'min' else 'maxof', self.stage('map', it0, ('lam', d, g)))
                        return (T.tmin if bu[0] == 'min' else T.tmax)(args[1], T.root(agg))
                return T.root(('fold', it0, T.unroot(args[1]), lam2))
            if name == 'max':
                return ('maxof', self.as_iter(a0))
            if name == 'min':
                return ('minof', self.as_iter(a0))
            if name == 'max_by' and len(args) == 2:
                return ('max_by', self.as_iter(a0), self.lam(args[1], depth, 2))
            if name == 'reduce' and len(args) == 2:
                return ('reduce', self.as_iter(a0), self.lam(args[1], depth, 2))
            if name in ('count',):
                return T.root(('count', self.as_iter(a0)))
            if name == 'position' and len(args) == 2:
                it0 = ('enumerate', self.as_iter(a0))
                d = max(self.bvd, getattr(self.closure_obj(args[1]), 'bvd', 0) or 0)
                old = self.bvd
                self.bvd = d + 1
                try:
                    pred = self.apply(args[1], [T.proj(T.bv(d), 1)], depth)
                finally:
                    self.bvd = old
                return ('optproj', ('first', it0, ('lam', d, pred)), 0)
            if name == 'find' and len(args) == 2:
                it0 = self.as_iter(a0)
                return ('first', it0, self.lam(args[1], depth, 1, it0))
            if name == 'next':
                it0 = self.as_iter(a0)
                f = self.first_of(it0)
                if f is not None:
                    return f
            if name == 'last':
                it0 = self.as_iter(a0)
                if isinstance(it0, tuple) and it0[0] == 'take_while' and isinstance(it0[1], tuple) and it0[1] and it0[1][0] == 'elems' \
                        and it0[2][0] == 'lam' and T.is_bool(it0[2][2]):
                    # the last element of the prefix satisfying P is the one before the first element violating it
                    v, d, P = it0[1][1], it0[2][1], it0[2][2]
                    Pe = T.substitute(P, {T.bv(d): T.proj(T.bv(d), 1)})
                    F = ('first', ('enumerate', it0[1]), ('lam', d, T.tnot(Pe)))
                    i = T.ite(('matches', F, 'Some'), T.root(T.proj(('case', F, 'Some', 0), 0)), T.root(('len', v)))
                    return ('boolthen', T.cmp('Ge', i, T.const(1)), T.root(('idx', v, T.sub(i, T.const(1)))))
            if name in ('next', 'last', 'peek'):
                return (name + 'of', self.as_iter(a0))
            if name in ('any', 'all') and len(args) == 2:
                it0 = self.as_iter(a0)
                return (name, it0, self.lam(args[1], depth, 1, it0))
        # --- Option / Result
        if path.startswith('std::option::Option') or path.startswith('std::result::Result'):
            if name == 'unwrap_or' and len(args) == 2:
                return self.opt_or(a0, args[1])
            if name == 'unwrap_or_else' and len(args) == 2:
                return self.opt_or(a0, self.apply(args[1], [], depth))
            if name == 'unwrap_or_default':
                return self.opt_or(a0, T.const(0))
            if name in ('unwrap', 'expect'):
                if node is not None:
                    self.emit('unwrap', node, body, arg=a0, method=name)
                v = T.unroot(a0)
                if isinstance(v, tuple) and v and v[0] in ('some', 'ok'):
                    return v[1]
                if self.opt_view(v) is not None:
                    return self.opt_view(v)[1]
                # the payload of the Some / Ok variant: the same term a pattern binding produces
                return T.root(('case', v, 'Ok' if path.startswith('std::result::Result') else 'Some', 0))
            if name == 'map' and len(args) == 2 and path.startswith('std::result::Result'):
                # r.map(f)  ==  Ok(f(r?)): the error is propagated unchanged, the value is transformed
                self.trace.append(('try', node if node is not None else {}, a0))
                return ('ok', self.apply(args[1], [T.root(('try', T.unroot(a0)))], depth))
            if name == 'and_then' and len(args) == 2 and path.startswith('std::result::Result'):
                # r.and_then(f)  ==  f(r?): the error of r is propagated unchanged, otherwise f decides
                self.trace.append(('try', node if node is not None else {}, a0))
                return self.apply(args[1], [T.root(('try', T.unroot(a0)))], depth)
            if name == 'map' and len(args) == 2:
                return ('optmap', T.unroot(a0), self.lam(args[1], depth))
            if name == 'map_or' and len(args) == 3:
                return self.opt_or(('optmap', T.unroot(a0), self.lam(args[2], depth)), args[1])
            if name == 'map_or_else' and len(args) == 3:
                return self.opt_or(('optmap', T.unroot(a0), self.lam(args[2], depth)), self.apply(args[1], [], depth))
            if name == 'filter' and len(args) == 2:
                return ('optfilter', T.unroot(a0), self.lam(args[1], depth))
            if name in ('is_err', 'is_ok', 'is_some', 'is_none'):
                # the same condition a pattern test produces
                ov = self.opt_view(T.unroot(a0))
                m = ov[0] if ov is not None else ('matches', T.unroot(a0), 'Ok' if name in ('is_err', 'is_ok') else 'Some')
                return m if name in ('is_ok', 'is_some') else T.tnot(m)
        if path.startswith('std::iter::Peekable') and name in ('peek', 'next', 'next_if', 'next_if_eq', 'peek_mut'):
            if node is not None:
                self.emit('consume', node, body, it=self.as_iter(a0), consumer='peek' if 'peek' in name else 'next')
            return ('peekof', self.as_iter(a0))
        if name in ('then', 'then_some') and len(args) == 2 and 'bool' in path and T.is_bool(args[0]):
            # c.then(f) is Some(f()) iff c; f runs under c
            v = self.with_pc([args[0]], lambda: self.apply(args[1], [], depth)) if name == 'then' else args[1]
            return ('boolthen', args[0], v)
        if name == 'windows' and len(args) == 2 and 'slice' in path and T.is_lin(args[1]) and T.is_const(args[1]) and 1 <= args[1][1] <= 4:
            # v[lo..hi].windows(k): one window per end position i in lo+k-1..hi, holding v[i-k+1], .., v[i]
            k = args[1][1]
            base = T.unroot(a0)
            lo, hi = T.const(0), None
            if isinstance(base, tuple) and base and base[0] == 'idx' and isinstance(base[2], tuple) and base[2] and base[2][0] == 'range' \
                    and base[2][2] != ('inf',):
                base, lo, hi = base[1], base[2][1], base[2][2]
            if hi is None:
                hi = T.root(('len', base))
            d = self.bvd
            win = T.tup(*[T.root(('idx', base, T.sub(T.as_lin(T.bv(d)), T.const(k - 1 - j)))) for j in range(k)])
            return ('map', ('range', T.add(lo, T.const(k - 1)), hi), ('lam', d, win))
        if name in ('as_slice', 'as_mut_slice') and len(args) == 1 and 'Vec' in path:
            return a0
        if name in ('get', 'get_mut') and len(args) == 2 and ('slice' in path or 'Vec' in path) and self.numericish(args[1]):
            base = T.unroot(a0)
            if isinstance(base, tuple) and base and base[0] == 'elemhavoc':
                base = base[1]
            if name == 'get_mut' and node is not None:
                # a later `*r = x` through the reference this Option holds is a write to base[i]
                self.refs[T.root(('idx', base, T.as_lin(args[1])))] = (node['recv'], T.as_lin(args[1]))
            return ('optidx', base, T.as_lin(args[1]))
        if name == 'len' and len(args) == 1 and ('slice' in path or 'Vec' in path or 'VecDeque' in path):
            v = T.unroot(a0)
            if isinstance(v, tuple) and v and v[0] == 'elemhavoc':
                v = v[1]
            return self.len_of(v)
        if name == 'is_empty' and len(args) == 1 and ('slice' in path or 'Vec' in path or 'VecDeque' in path):
            return T.eq0(T.root(('len', T.unroot(a0))))
        if name in ('last', 'first', 'back', 'front') and len(args) == 1 and ('slice' in path or 'VecDeque' in path):
            return (name, T.unroot(a0))

        if path.startswith('core::panicking') or path.startswith('std::rt::panic') or path.startswith('std::rt::begin_panic') \
                or path.startswith('core::panic') or path.startswith('std::panicking'):
            if node is not None:
                self.emit('panic', node, body, callee=path)
            return ('never',)
        if path in ('fixed_point::search', 'fixed_point::search_with_offset'):
            # the workload closure is only ever called with an assumed response time >= 1
            for a in args:
                c = self.closure_obj(a)
                if c is not None and not c.param_facts:
                    c.param_facts.append(lambda xs: T.cmp('Le', T.const(1), xs[0]) if xs else T.TRUE)

        # --- crate-local code
        b = self.crate.body(path)
        if b is not None and self.has_loop(b):
            # a havocked loop gives no usable value; but if every loop of the callee reduces to a search / sum / max / min
            # the callee has a value after all: try, and roll back otherwise
            v = self.try_inline_loop_fn(b, path, args, node, body, depth) if (path not in NOINLINE and depth < self.max_depth and b.kind in ('Fn', 'AssocFn')
                                                                         and not (b.raw.get('trait') and not b.raw.get('impl'))) else None
            if v is not None:
                return v
            if self.inline_private_loops and body is not None and self.transparent_ok(b, body):
                self.transparent.append(b.path)
                self.transparent_seen.add(b.path)
                cenv = {}
                for i, p in enumerate(b.params):
                    self.bind(p, args[i] if i < len(args) else T.param(i), cenv)
                try:
                    v = self.unwrap_ret(self.ev(b.body, cenv, b, depth))
                finally:
                    self.transparent.pop()
                self.was_transparent = True
                # what the callee left behind `&mut` parameters is written back to the caller's places by the call site
                self.transparent_out = []
                for i, p in enumerate(b.params):
                    q = p
                    while q.get('k') in ('Ref', 'Deref'):
                        q = q['p']
                    ity = (b.raw.get('inputs') or [])
                    if q.get('k') == 'Bind' and i < len(ity) and ity[i].startswith('&mut') and i < len(args) and cenv.get(q['id']) is not None \
                            and cenv[q['id']] is not args[i] and cenv[q['id']] != args[i]:
                        self.transparent_out.append((i, cenv[q['id']]))
                return v
            self.opaque_loop_calls.add(b.path)
            b = None    # keep the call opaque (the callee is analysed on its own)
        if b is not None and path not in NOINLINE and depth < self.max_depth and b.kind in ('Fn', 'AssocFn'):
            # trait *declarations* with default bodies stay opaque: dispatch is dynamic
            if b.raw.get('trait') and not b.raw.get('impl'):
                return T.root(T.call(path, *[T.unroot(a) for a in args]))
            self.stack.append((path, node if node is not None else {}, body))
            gens = b.raw.get('generics') or []
            self.tysubst.append({g: t for g, t in zip(gens, targs or []) if isinstance(t, str)} if gens and targs and len(gens) == len(targs) else {})
            try:
                return self.unwrap_ret(self.eval_body(b, args, depth + 1))
            finally:
                self.stack.pop()
                self.tysubst.pop()
        if path in NOINLINE and node is not None:
            self.trace.append(('call', node, (path, tuple(args))))
        return T.root(T.call(path, *[T.unroot(a) for a in args]))

    def transparent_ok(self, b, body):
        if b.path in self.transparent or len(self.transparent) >= 2 or b is body or b.kind not in ('Fn', 'AssocFn'):
            return False
        if self.inline_private_loops == 'unit' and b.raw.get('output') != '()':
            # value-returning loop helpers: the havocked loop gives no usable value, the call stays an opaque term
            return False
        if not str(b.raw.get('vis', '')).startswith('Restricted') or b.raw.get('impl_trait') or (b.raw.get('trait') and not b.raw.get('impl')):
            return False
        # loop node numbers are per body: a clash would conflate loop-carried values of the two bodies
        mine = {n.get('_nid') for n in body.walk() if n.get('k') == 'Loop'} | {n.get('_nid') for n in (self.top_body.walk() if self.top_body is not None else []) if n.get('k') == 'Loop'}
        theirs = {n.get('_nid') for n in b.walk() if n.get('k') == 'Loop'}
        return not (mine & theirs)

    def try_inline_loop_fn(self, b, path, args, node, body, depth):
        if any(c == path for c, _, _ in self.stack):
            return None
        mark = len(self.events)
        saved_hit = self.search_hit
        self.stack.append((path, node if node is not None else {}, body))
        try:
            v = self.unwrap_ret(self.eval_body(b, args, depth + 1))
        except RecursionError:
            v = None
        finally:
            self.stack.pop()
            self.search_hit = saved_hit
        loops = [x for x in self.events[mark:] if x['kind'] == 'loop' and x['body'] == b.path]
        bad = v is None or any(not x.get('reduced') for x in loops) or any(
            isinstance(y, tuple) and y and y[0] in ('havoc', 'elemhavoc', 'loopval') for y in T.subterms(v))
        if bad:
            del self.events[mark:]
            return None
        return v

    def loops_all_reducible(self, b):
        """does every loop of b reduce (search / accumulator) when b is evaluated on symbolic arguments?"""
        if not hasattr(self, '_reducible'):
            self._reducible = {}
        if b.path not in self._reducible:
            self._reducible[b.path] = False     # guards against recursion
            sub = Evaluator(self.crate, self.max_depth)
            try:
                v = sub.eval_body(b)
                loops = [x for x in sub.events if x['kind'] == 'loop' and x['depth'] == 0]
                self._reducible[b.path] = bool(loops) and all(x.get('reduced') for x in loops) and not any(
                    isinstance(y, tuple) and y and y[0] in ('havoc', 'elemhavoc', 'loopval') for y in T.subterms(v))
            except RecursionError:
                pass
        return self._reducible[b.path]

    def has_loop(self, b):
        if not hasattr(self, '_loopcache'):
            self._loopcache = {}
        if b.path not in self._loopcache:
            self._loopcache[b.path] = any(n.get('k') == 'Loop' for n in b.walk())
            if not self._loopcache[b.path] and self.inline_private_loops:
                # a function that runs its loop in a private helper evaluated in place has that loop, too (so that callers
                # treat `f` alike whether its loop is written in f or in a helper of f)
                for n in b.walk():
                    if n.get('k') in ('Call', 'MethodCall') and n.get('callee'):
                        cb = self.crate.body(n['callee'])
                        if cb is not None and cb is not b and self.transparent_static_ok(cb) and self.has_loop(cb):
                            self._loopcache[b.path] = True
                            break
        return self._loopcache[b.path]

    def transparent_static_ok(self, b):
        if b.kind not in ('Fn', 'AssocFn'):
            return False
        if self.inline_private_loops == 'unit' and b.raw.get('output') != '()':
            return False
        return str(b.raw.get('vis', '')).startswith('Restricted') and not b.raw.get('impl_trait') and not (b.raw.get('trait') and not b.raw.get('impl'))

    def unwrap_ret(self, v):
        if isinstance(v, tuple) and v and v[0] == 'ret':
            return v[1]
        return v

    def opt_view(self, su):
        """(condition for Some, payload) of an Option-valued term whose Some-ness has an arithmetic meaning:
        v.get(i) is Some(v[i]) iff i < len(v);  a.checked_sub(b) is Some(a - b) iff b <= a"""
        if isinstance(su, tuple) and su:
            if su[0] == 'optidx':
                return T.cmp('Lt', su[2], T.root(('len', su[1]))), T.root(('idx', su[1], su[2]))
            if su[0] == 'csub':
                return T.cmp('Le', su[2], su[1]), T.sub(su[1], su[2])
            if su[0] == 'boolthen':
                return su[1], su[2]
            if su[0] == 'optmap' and su[2][0] == 'lam' and self.opt_view(su[1]) is not None:
                c, x = self.opt_view(su[1])
                pay = T.substitute(su[2][2], {T.bv(su[2][1]): T.unroot(x) if not T.is_lin(x) or T.single_root(x) is not None else x})
                return c, pay
            if su[0] in ('optproj', 'optmap') and isinstance(su[1], tuple) and su[1] and su[1][0] == 'first':
                # an Option computed from a search (position / find().map(..)): Some iff the search hits
                F = su[1]
                hit = ('case', F, 'Some', 0)
                pay = T.proj(hit, su[2]) if su[0] == 'optproj' else T.substitute(su[2][2], {T.bv(su[2][1]): hit})
                return ('matches', F, 'Some'), (T.root(pay) if self.numericish(pay) else pay)
            if su[0] in ('first', 'last', 'front', 'back') and len(su) == 2:
                # v.first() / v.last() is Some(v[0]) / Some(v[len - 1]) iff v is not empty
                n = T.root(('len', su[1]))
                ix = T.const(0) if su[0] in ('first', 'front') else T.sub(n, T.const(1))
                return T.cmp('Ge', n, T.const(1)), T.root(('idx', su[1], ix))
        return None

    def range_empty(self, it):
        """is the iterator provably empty under the current path condition? (a range whose end does not exceed its start)"""
        from .sites import implies_nonneg
        while isinstance(it, tuple) and it and it[0] in ('map', 'filter', 'take', 'skip', 'rev', 'enumerate', 'take_while', 'skip_while'):
            it = it[1]
        if isinstance(it, tuple) and it and it[0] == 'range' and it[2] != ('inf',) and T.is_lin(it[1]) and T.is_lin(it[2]):
            return implies_nonneg(T.sub(it[1], it[2]), self.pc) is not None
        return isinstance(it, tuple) and it == ('empty',)

    def opt_or(self, o, d):
        o = T.unroot(o)
        if isinstance(o, tuple) and o and o[0] in ('minof', 'maxof'):
            src = o[1]
            n = None
            if isinstance(src, tuple) and src and src[0] == 'take' and isinstance(src[1], tuple) and src[1] and src[1][0] == 'chain':
                src, n = src[1], T.as_lin(src[2])
            if isinstance(src, tuple) and src and src[0] == 'chain' and isinstance(src[1], tuple) and src[1] and src[1][0] == 'optiter':
                # min / max over `option.into_iter().chain(rest)[.take(n)]`, with a default for the empty case
                c0, x, rest = src[1][1], src[1][2], src[2]
                agg = o[0]
                comb = T.tmin if agg == 'minof' else T.tmax
                if n is None:
                    then_v = self.with_pc([c0], lambda: comb(x, T.root((agg, rest))) if not self.range_empty(rest) else x)
                    else_v = self.with_pc([T.tnot(c0)], lambda: self.opt_or((agg, rest), d))
                    return T.ite(c0, then_v, else_v)
                some_n = T.cmp('Ge', n, T.const(1))

                def taken(m):
                    return self.count_stage('take', rest, m)
                then_v = self.with_pc([c0, some_n], lambda: (lambda r: x if self.range_empty(r) else comb(x, T.root((agg, r))))(taken(T.sub(n, T.const(1)))))
                e1 = self.with_pc([c0, T.tnot(some_n)], lambda: self.opt_or((agg, taken(T.const(0))), d))
                e2 = self.with_pc([T.tnot(c0)], lambda: self.opt_or((agg, taken(n)), d))
                return T.ite(c0, T.ite(some_n, then_v, e1), e2)
            if self.range_empty(src):
                return d
        ov = self.opt_view(o)
        if ov is not None and not (o[0] == 'csub' and T.as_lin(d) == T.const(0)):
            return T.ite(ov[0], ov[1], d)
        if isinstance(o, tuple) and o and o[0] in ('optproj', 'optmap') and isinstance(o[1], tuple) and o[1] and o[1][0] == 'first':
            F = o[1]
            hit = ('case', F, 'Some', 0)
            v = T.proj(hit, o[2]) if o[0] == 'optproj' else T.substitute(o[2][2], {T.bv(o[2][1]): hit})
            return T.ite(('matches', F, 'Some'), v, d)
        if isinstance(o, tuple) and o and o[0] == 'maxof' and T.as_lin(d) == T.const(0):
            # max over a possibly empty set of non-negative values, 0 if empty  ==  max{0, max over the set}
            return T.tmax(T.const(0), T.root(o))
        if isinstance(o, tuple) and o and o[0] in ('some', 'ok'):
            return o[1]
        if o == ('none',):
            return d
        if isinstance(o, tuple) and o and o[0] == 'csub' and T.as_lin(d) == T.const(0):
            return T.pos(T.sub(o[1], o[2]))     # a.checked_sub(b).unwrap_or(0) is a saturating subtraction
        return T.root(('optor', o, d))

    def find_impl_method(self, trait, self_ty, arg_ty, name):
        for imp in self.crate.impls:
            if imp.get('trait') != trait:
                continue
            if strip_refs(imp.get('self_ty', '')) != self_ty:
                continue
            tr = imp.get('trait_ref', '')
            if arg_ty and arg_ty not in tr:
                continue
            return self.crate.method_body(imp, name)
        return None
