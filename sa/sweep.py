"""Systematic single-token mutants of the library sources (thorough tier and tools/mutation_sweep.py).

A mutant is one textual replacement in one non-test, non-comment position of a source file: relational and arithmetic
operators, constants 0/1/epsilon, range starts and inclusivity, min/max, saturating vs plain subtraction, dropped
.rev()/.dedup()/.skip(1), closed vs half-open interval conversions, is_zero / is_non_zero, && / ||, take_while / skip_while."""
import hashlib
import os
import re

OPS = [
    # (name, regex, replacement(s))
    ('rel', r' <= ', [' < ']), ('rel', r' < ', [' <= ']), ('rel', r' >= ', [' > ']), ('rel', r' > ', [' >= ']),
    ('eq', r' == ', [' != ']), ('eq', r' != ', [' == ']),
    ('arith', r' \+ ', [' - ']), ('arith', r' - ', [' + ']),
    ('arith', r' \* ', [' + ']), ('arith', r' / ', [' * ']), ('arith', r' % ', [' / ']),
    ('const', r'\bfrom\(1\)', ['from(0)', 'from(2)']), ('const', r'\bfrom\(0\)', ['from(1)']),
    ('const', r'\bepsilon\(\)', ['zero()']), ('const', r'\bzero\(\)', ['epsilon()']), ('const', r'\bnone\(\)', ['from(1)']),
    ('const', r'\bEPSILON\b', ['Duration::zero()']),
    ('range', r'\(0\.\.\)', ['(1..)']), ('range', r'\(1\.\.\)', ['(0..)', '(2..)']), ('range', r'\.\.=', ['..']),
    ('minmax', r'\.min\(', ['.max(']), ('minmax', r'\.max\(', ['.min(']),
    ('minmax', r'\bmin\(', ['max(']), ('minmax', r'\bmax\(', ['min(']),
    ('sat', r'\.saturating_sub\(([^()]*(?:\([^()]*\))?[^()]*)\)', [r' - \1']),
    ('drop', r'\.rev\(\)', ['']), ('drop', r'\.dedup\(\)', ['']), ('drop', r'\.skip\(1\)', ['']),
    ('closed', r'\bclosed_since_time_zero\(\)', ['since_time_zero()']), ('closed', r'\bsince_time_zero\(\)', ['closed_since_time_zero()']),
    ('closed', r'\bclosed_from_time_zero\(', ['from_time_zero(']), ('closed', r'\bfrom_time_zero\(', ['closed_from_time_zero(']),
    ('bool', r'\bis_zero\(\)', ['is_non_zero()']), ('bool', r'\bis_non_zero\(\)', ['is_zero()']),
    ('bool', r' && ', [' || ']), ('bool', r' \|\| ', [' && ']),
    ('take', r'\.take_while\(', ['.skip_while(']), ('take', r'\.unwrap_or_else\(Service::none\)', ['.unwrap_or_else(|| Service::from(1))']),
]


# second family (tools/mutation_sweep.py --extended): statement-level and structural single edits
OPS2 = [
    ('stmt', r'(?m)^[ \t]+(?!let |return |break|continue|\}|//)[A-Za-z_][\w.\[\]]*(?:\([^;\n]*\))? (?:\+|-|\*)?= [^;\n]*;\n', ['']),       # an assignment deleted
    ('stmt', r'(?m)^[ \t]+(?!let |return )[A-Za-z_][\w.]*\.(?:push|push_back|pop_front|pop_back|sort|sort_unstable|dedup|extend|truncate|insert|clear)\([^;\n]*\);?\n', ['']),   # a mutating call deleted
    ('compound', r' \+= ', [' -= ', ' = ']), ('compound', r' -= ', [' += ']),
    ('plus1', r'(?<=[\w)\]]) \+ 1\b(?!\.)', ['', ' + 2']), ('plus1', r'(?<=[\w)\]]) - 1\b(?!\.)', ['', ' - 2']),
    ('neg', r'\bif !(?=[\w(])', ['if ']), ('neg', r'\bwhile !(?=[\w(])', ['while ']),
    ('neg', r'\bif (?![!l(]|let )([^{}\n]*?) \{', [r'if !(\1) {']),
    ('lit2', r'(?<![\w.])2(?![\w.])', ['3', '1']),
    ('iter', r'\.skip\((\w+)\)', [r'.skip(\1 + 1)']), ('iter', r'\.take\(([^()]*(?:\([^()]*\))?[^()]*)\)', [r'.take(\1 + 1)']),
    ('iter', r'\.chain\(([^()]*(?:\([^()]*(?:\([^()]*\))?[^()]*\))?[^()]*)\)', ['']),
    ('iter', r'\.peekable\(\)', ['.skip(1).peekable()']),
    ('opt', r'\.unwrap_or\(([^()]*(?:\([^()]*\))?[^()]*)\)', [r'.unwrap_or(\1 + \1)']),
    ('opt', r'\.ok\(\)\?', ['.ok().or(None)?']),
    ('field', r'\bself\.budget\b', ['self.period']), ('field', r'\bself\.period\b', ['self.budget']),
    ('field', r'\bself\.deadline\b', ['self.period']), ('field', r'\bself\.jitter\b', ['self.min_inter_arrival']),
    ('field', r'\bself\.min_inter_arrival\b', ['self.jitter']),
    ('ret', r'(?m)^[ \t]+return ([^;\n]*);\n', ['']),
    ('arg', r'\bjobs_in_largest_known_distance\(\)', ['jobs_in_largest_known_distance() + 1']),
    ('arg', r'\blargest_known_distance\(\)', ['largest_known_distance() + Duration::from(1)']),
    ('cast', r'\b(\w+) as u64\b', [r'(\1 + 1) as u64']), ('cast', r'\b(\w+) as usize\b', [r'(\1 + 1) as usize']),
]


def source_files(repo, filters=()):
    out = []
    for root, _, files in os.walk(os.path.join(repo, 'src')):
        for f in files:
            p = os.path.join(root, f)
            rel = os.path.relpath(p, repo)
            if not f.endswith('.rs') or f == 'tests.rs' or '/tests/' in rel or f.startswith('test'):
                continue
            if filters and not any(x in rel for x in filters):
                continue
            out.append(rel)
    return sorted(out)


def code_spans(text):
    """yield (start, end) of code regions: not inside comments, doc comments, string literals, #[cfg(test)] modules"""
    cut = text.find('#[cfg(test)]')
    limit = len(text) if cut < 0 else cut
    i = 0
    start = 0
    while i < limit:
        if text.startswith('//', i):
            if start < i:
                yield (start, i)
            j = text.find('\n', i)
            i = limit if j < 0 else j + 1
            start = i
        elif text.startswith('/*', i):
            if start < i:
                yield (start, i)
            j = text.find('*/', i)
            i = limit if j < 0 else j + 2
            start = i
        elif text[i] == '"':
            if start < i:
                yield (start, i)
            j = i + 1
            while j < limit and text[j] != '"':
                j += 2 if text[j] == '\\' else 1
            i = j + 1
            start = i
        else:
            i += 1
    if start < limit:
        yield (start, limit)


def enumerate_mutants(repo, files, ops=None):
    muts = []
    for rel in files:
        if not os.path.exists(os.path.join(repo, rel)):
            continue
        text = open(os.path.join(repo, rel)).read()
        spans = list(code_spans(text))
        for name, rx, repls in (ops or OPS):
            for m in re.finditer(rx, text):
                if not any(a <= m.start() and m.end() <= b for a, b in spans):
                    continue
                line = text.count('\n', 0, m.start()) + 1
                ltxt = text.split('\n')[line - 1]
                if ltxt.lstrip().startswith(('#[', 'use ', 'pub use', 'mod ', 'assert', 'debug_assert')) and name not in ('rel',):
                    continue
                if 'fn ' in ltxt and '->' in ltxt and name in ('rel', 'arith'):
                    continue    # signatures / generics
                for rp in repls:
                    new = text[:m.start()] + m.expand(rp) + text[m.end():]
                    mid = hashlib.sha1(f'{rel}:{m.start()}:{rp}'.encode()).hexdigest()[:8]
                    muts.append(dict(id=mid, file=rel, line=line, op=name, old=m.group(0), new=m.expand(rp), text=ltxt.strip()[:140], pos=m.start(), content=new))
    return muts


