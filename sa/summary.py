"""Canonical summary of a function: its value term plus, for each loop, one symbolic iteration
(iterator / guard, initial values of the loop-carried variables, every assignment / return / break /
mutating call with its path condition).  Node numbers are anonymised; bound variables are numbered by
nesting; `name°` denotes the value of a loop-carried variable at the head of an iteration."""

import re

from . import term as T
from .evalr import Evaluator
from .sites import canon_text


def raw(t):
    return T.show(T.canon(t))


def pc_text(pc):
    return ' && '.join(sorted(raw(c) for c in pc)) or 'always'


def summarise(crate, body, args=None):
    ev = Evaluator(crate)
    top = ev.eval_entry(body, args)
    lines = ['RET ' + raw(top)]
    loops = {}
    for e in ev.events:
        if e['depth'] != 0:
            continue
        k = e['kind']
        ind = '  ' * len(e['loops'])
        if k == 'loop':
            nid = e['node'].get('_nid')
            loops[nid] = e
            head = f"{ind}LOOP[{e.get('src')}]"
            if e.get('iter') is not None:
                head += ' over ' + raw(e['iter'])
            lines.append(head)
        elif k == 'assign':
            tgt = e.get('name', '?') + ''.join('.' + f for f in e.get('fields', ()) if f != '[]')
            lines.append(f"{ind}SET {tgt} := {raw(e['value'])} WHEN {pc_text(e['pc'])}")
        elif k == 'ret':
            lines.append(f"{ind}RETURN {raw(e['value'])} WHEN {pc_text(e['pc'])}")
        elif k == 'break':
            lines.append(f"{ind}BREAK WHEN {pc_text(e['pc'])}")
        elif k == 'mutcall':
            lines.append(f"{ind}MUT {e.get('place')}.{e['callee'].split('::')[-1]}({', '.join(raw(a) for a in e['args'][1:])}) WHEN {pc_text(e['pc'])}")
    # initial values of loop-carried variables
    for nid, l in loops.items():
        assigned = {}
        for x in ev.events:
            if x['kind'] == 'assign' and nid in x['loops'] and x['depth'] == 0 and x.get('local') is not None:
                assigned[x['local']] = True
        for x in ev.events:
            if x['kind'] == 'mutcall' and nid in x['loops'] and x['depth'] == 0 and x.get('target') is not None:
                assigned[x['target']] = True
        for lid in sorted(assigned):
            init = l['env_before'].get(lid)
            b = body.binders.get(lid)
            name = b['bind']['name'] if b else f'#{lid}'
            if init is not None and not (isinstance(T.unroot(init), tuple) and T.unroot(init)[0] in ('havoc', 'elemhavoc')):
                line = f"INIT {name} = {raw(init)}"
                if line not in lines:
                    lines.append(line)
    text = '\n'.join(lines)

    def name_of(m):
        b = body.binders.get(int(m.group(1)))
        return (b['bind']['name'] if b else 'var') + '°'
    text = re.sub(r'havoc\((\d+), \d+\)', name_of, text)

    def name_of2(m):
        b = body.binders.get(int(m.group(1)))
        return (b['bind']['name'] if b else 'var') + '°'
    text = re.sub(r'elemhavoc\((?:[^()]|\([^()]*\))*, (\d+), \d+\)', name_of2, text)
    return canon_text(text), ev
