"""Canonical summary of a function: its value term plus, for each loop, one symbolic iteration
(iterator / guard, initial values of the loop-carried variables, every assignment / return / break /
mutating call with its path condition).  Node numbers are anonymised; bound variables are numbered by
nesting; `name°` denotes the value of a loop-carried variable at the head of an iteration."""

import re

from . import term as T
from .evalr import Evaluator
from .sites import canon_text


def CANON(t):
    return T.canon(t, minmax=True)


def case_lines(pc_values):
    """[(pc, value)] -> canonical CASE / RET lines"""
    by_value = {}
    order = []
    for pc, v in pc_values:
        cond = T.tand(*pc) if pc else T.TRUE
        if cond == T.FALSE or CANON(cond) == T.FALSE:
            continue
        k = raw(v)
        if k not in by_value:
            by_value[k] = []
            order.append(k)
        by_value[k].append(cond)
    out = []
    for k in order:
        cond = _absorb(by_value[k])
        out.append(('RET ' + k) if cond == T.TRUE else f'CASE {raw(cond)} => {k}')
    return out


def term_case_lines(t):
    """the guarded-case normal form of a value term, as a sorted list of lines (for comparing two terms up to how their
    conditionals are nested)"""
    return sorted(case_lines(cases(CANON(t))))


def _absorb(conds):
    """disjunction of conditions with  (A && B) || !B  ->  A || !B  applied to a fixed point"""
    ds = []
    for c in conds:
        c = T.unroot(c) if not T.is_bool(c) else c
        if isinstance(c, tuple) and c and c[0] == 'or':
            ds.extend(c[1])
        else:
            ds.append(c)
    changed = True
    while changed:
        changed = False
        for i, d in enumerate(ds):
            if isinstance(d, tuple) and d and d[0] == 'and':
                keep = [x for x in d[1] if not any(j != i and CANON(o) == CANON(T.tnot(x)) for j, o in enumerate(ds))]
                if len(keep) != len(d[1]):
                    ds[i] = T.tand(*keep)
                    changed = True
        if T.TRUE in ds:
            return T.TRUE
    return CANON(T.tor(*ds))


def _plain_local(body, lid):
    """a `let`-bound local that is not a mutable reference (so assigning to it cannot be seen from outside)"""
    b = body.binders.get(lid)
    if b is None or b['kind'] != 'let':
        return False
    return not str(b['bind'].get('ty', '')).startswith('&mut')


def raw(t):
    return T.show(CANON(t))


def pc_text(pc):
    c = CANON(T.tand(*pc)) if pc else T.TRUE
    if c == T.TRUE:
        return 'always'
    conj = c[1] if isinstance(c, tuple) and c and c[0] == 'and' else (c,)
    return ' && '.join(sorted(raw(x) for x in conj))


def cases(value, pc=(), fuel=5):
    """guarded-case normal form of a value: conditionals at the top of the term, as summands of a top-level linear form,
    as the payload of Ok/Some or as a direct argument of a top-level call are split into separate cases
    (`f(if c {a} else {b})` and `if c {f(a)} else {f(b)}` are the same two cases)"""
    v = T.unroot(value)
    if fuel > 0 and isinstance(v, tuple) and v:
        if v[0] == 'ite':
            return cases(v[2], pc + (v[1],), fuel - 1) + cases(v[3], pc + (T.tnot(v[1]),), fuel - 1)
        if T.is_lin(v):
            for r, c in v[2]:
                if isinstance(r, tuple) and r and r[0] == 'ite':
                    rest = T.sub(v, T.scale(T.root(r), c))
                    return cases(T.add(rest, T.scale(T.as_lin(r[2]), c)), pc + (r[1],), fuel - 1) + \
                        cases(T.add(rest, T.scale(T.as_lin(r[3]), c)), pc + (T.tnot(r[1]),), fuel - 1)
        if v[0] in ('ok', 'some', 'err') and len(v) == 2:
            inner = T.unroot(v[1])
            if isinstance(inner, tuple) and inner and inner[0] == 'ite':
                return cases((v[0], inner[2]), pc + (inner[1],), fuel - 1) + cases((v[0], inner[3]), pc + (T.tnot(inner[1]),), fuel - 1)
        if v[0] == 'call':
            for i, a in enumerate(v[2]):
                au = T.unroot(a)
                if isinstance(au, tuple) and au and au[0] == 'ite':
                    mk = lambda x: ('call', v[1], v[2][:i] + (T.unroot(x),) + v[2][i + 1:])
                    return cases(mk(au[2]), pc + (au[1],), fuel - 1) + cases(mk(au[3]), pc + (T.tnot(au[1]),), fuel - 1)
    return [(pc, value)]


def exclusive(a, b):
    """two path conditions that cannot hold together (one contains the negation of a conjunct of the other)"""
    if a is None or b is None:
        return False
    return any(T.tnot(c) in b for c in a)


def order_effects(effects):
    """effects are listed in evaluation order -- up to commuting effects whose path conditions are contradictory (they
    never both happen in one execution, e.g. the arms of a conditional, or a loop-exit test and the rest of the body):
    the canonical order is the topological order of "earlier and not exclusive", ties broken by text.  Loop heads are
    barriers."""
    out = []
    i = 0
    while i < len(effects):
        if effects[i][2] is None:
            out.append(effects[i][1])
            i += 1
            continue
        j = i
        while j < len(effects) and effects[j][2] is not None and effects[j][0] == effects[i][0]:
            j += 1
        run = effects[i:j]
        n = len(run)
        preds = {b: {a for a in range(b) if not exclusive(run[a][2], run[b][2])} for b in range(n)}
        done = []
        left = set(range(n))
        while left:
            ready = [b for b in left if preds[b] <= set(done)]
            pick = min(ready, key=lambda b: run[b][1])
            done.append(pick)
            left.remove(pick)
        out.extend(run[b][1] for b in done)
        i = j
    return out


def _exit_states(ev, all_cases, exit_ret):
    """`break` at an exit whose state decides what follows:  `x = it.next(); if x.is_none() { break }` followed (after the
    loop) by `match x { None => return None, .. }` returns None at that exit -- the same as `x = it.next()?` inside the loop.
    The fields assigned earlier in the same iteration, on the path to the break, are known at the exit; when under them
    exactly one of the function's cases remains, its value does not depend on the loop state and nothing else happens after
    the loop on that path, the break is written as the return of that value."""
    tl = [e for e in ev.events if e['kind'] == 'loop' and e['depth'] == 0 and not e['loops'] and not e.get('reduced')]
    if len(tl) != 1:
        return
    nid = tl[0]['node'].get('_nid')
    inner = [e for e in ev.events if e['depth'] == 0 and e['loops'] == (nid,)]
    seen_loop = False
    post = []
    for e in ev.events:
        if e is tl[0]:
            seen_loop = True
        elif seen_loop and e['depth'] == 0 and not e['loops'] and e['kind'] in ('assign', 'mutcall', 'panic', 'unwrap', 'loop'):
            post.append(e)
    for e in inner:
        if e['kind'] != 'break' or id(e) in exit_ret or e.get('value') is not None:
            continue
        pcs = set(e['pc'])
        sigma, tainted = {}, set()
        for x in inner:
            if x is e:
                break
            if x['kind'] == 'assign' and x.get('local') is not None and len(x.get('fields') or ()) == 1 and x['fields'][0] != '[]':
                place = ('f', ('havoc', x['local'], nid), x['fields'][0])
                if set(x['pc']) <= pcs:
                    sigma[place] = T.unroot(x['value'])
                    tainted.discard(place)
                else:
                    tainted.add(place)
                    sigma.pop(place, None)
            elif x['kind'] in ('assign', 'mutcall') and not (x['kind'] == 'mutcall' and x.get('node', {}).get('recv', {}).get('k') == 'Field'):
                return      # a whole-variable write or a call on the variable itself: the exit state is not known field by field
        if not sigma:
            continue

        def under(c):
            c = T.substitute(c, sigma)
            return T.simplify_under(c, e['pc']) if T.is_bool(c) else c

        def mentions(t, what):
            return any(y in what for y in T.subterms(t))
        left = []
        for cpc, v in all_cases:
            conds = [under(c) for c in cpc]
            if any(c == T.FALSE for c in conds):
                continue
            left.append(([c for c in conds if c != T.TRUE], v, cpc))
        if len(left) != 1 or left[0][0]:
            continue
        _, v, cpc = left[0]
        if any(mentions(c, tainted) for c in cpc):
            continue
        v = T.substitute(v, sigma)
        if any(isinstance(y, tuple) and len(y) >= 3 and y[0] in ('havoc', 'elemhavoc') and y[-1] == nid for y in T.subterms(v)):
            continue
        quiet = True
        for x in post:
            conds = [under(c) for c in x['pc']]
            if x['kind'] == 'loop' or not any(c == T.FALSE for c in conds):
                quiet = False
        if quiet:
            exit_ret[id(e)] = v


def summarise(crate, body, args=None):
    ev = Evaluator(crate, inline_private_loops=True)
    top = ev.eval_entry(body, args)
    lines = []
    # `while !c {..}; x` leaves the loop by break and then yields x; `loop { if c { return x } .. }` returns x from inside:
    # both are written as a return of x at the exit (when x is a function of the loop-carried values only)
    exit_ret = {}
    tl = [e for e in ev.events if e['kind'] == 'loop' and e['depth'] == 0 and not e['loops'] and not e.get('reduced')]
    tu = T.unroot(top)
    if len(tl) == 1 and not (isinstance(tu, tuple) and tu and tu[0] in ('loopval', 'never', 'unit', 'ite')) and not ev.fallthrough_pc:
        nid = tl[0]['node'].get('_nid')
        after = False
        clean = True
        for e in ev.events:
            if e is tl[0]:
                after = True
                continue
            if after and e['depth'] == 0 and not e['loops'] and e['kind'] in ('assign', 'mutcall', 'ret', 'loop', 'break'):
                clean = False       # something else happens between the loop and the final value
        brk = [e for e in ev.events if e['kind'] == 'break' and e['depth'] == 0 and e['loops'] == (nid,)]
        mentions_loop = any(isinstance(y, tuple) and len(y) >= 3 and y[0] in ('havoc', 'elemhavoc') and y[-1] == nid for y in T.subterms(top))
        if clean and brk and mentions_loop:
            for e in brk:
                exit_ret[id(e)] = top
            top = ('loopval', nid)
    all_cases = [(tuple(ev.fallthrough_pc) + pc, v) for pc, v in cases(CANON(top))]
    # early exits that are not part of the value term (`?` on an Option) are cases of the function's value too
    for e in ev.events:
        if e['kind'] == 'ret' and e['depth'] == 0 and not e['loops'] and not e.get('joined'):
            all_cases.append((tuple(e['pc']), CANON(e['value'])))
            e['as_case'] = True
    # cases with the same value are one case under the disjunction of their conditions (so that `if a || b {0}` and
    # `if b {return 0}; if a {return 0}` read alike); A && B || !B is written A || !B
    lines.extend(case_lines(all_cases))
    lines[:] = sorted(set(lines))
    _exit_states(ev, all_cases, exit_ret)
    # the same content as terms (for the semantic fall-back of REF on loop-free functions): value cases, and the
    # effects with their values and conditions; consecutive assignments to one place are one assignment of a conditional
    merged = {}
    for pc, v in all_cases:
        cond = T.tand(*pc) if pc else T.TRUE
        if cond == T.FALSE or CANON(cond) == T.FALSE:
            continue
        merged.setdefault(v, []).append(cond)
    ev.struct = dict(cases=[(CANON(_absorb(cs)), v) for v, cs in merged.items()], effects=[], facts=[])
    effects = []      # (indent, text, frozenset(pc)) in evaluation order
    loops = {}
    reduced = set()
    for e in ev.events:
        if e['kind'] == 'loop' and e.get('reduced'):
            reduced.add(e['node'].get('_nid'))
    for e in ev.events:
        if e['depth'] != 0:
            continue
        if any(l in reduced for l in e['loops']):
            continue
        k = e['kind']
        ind = '  ' * len(e['loops'])
        if k == 'loop':
            nid = e['node'].get('_nid')
            if nid in reduced:
                continue    # an accumulator loop: its value is part of the terms above
            loops[nid] = e
            head = f"{ind}LOOP[{'ForLoop' if e.get('src') == 'ForLoop' else 'Loop'}]"
            if e.get('iter') is not None:
                head += ' over ' + raw(e['iter'])
            effects.append((ind, head, None))
        elif k == 'assign':
            if e.get('derived'):
                continue
            if not e['loops'] and _plain_local(body, e.get('local')):
                continue    # builds a local value that flows into the result: part of the value terms above
            tgt = e.get('name', '?') + ''.join('.' + f for f in e.get('fields', ()) if f != '[]')
            effects.append((ind, f"{ind}SET {tgt} := {raw(e['value'])} WHEN {pc_text(e['pc'])}", frozenset(e['pc'])))
            cond = CANON(T.tand(*e['pc'])) if e['pc'] else T.TRUE
            prev = ev.struct['effects'][-1] if ev.struct['effects'] else None
            if prev is not None and prev[0] == 'SET' and prev[1] == ind + tgt and '[]' not in e.get('fields', ()):
                # x = a (when p); x = b (when q)   ==   x = if q {b} else {a}  (when p or q)
                ev.struct['effects'][-1] = ('SET', ind + tgt, CANON(T.ite(cond, e['value'], prev[2])) if cond != T.TRUE else CANON(e['value']),
                                            CANON(T.tor(prev[3], cond)))
            else:
                ev.struct['effects'].append(('SET', ind + tgt, CANON(e['value']), cond))
        elif k == 'ret':
            if (e.get('joined') or e.get('as_case')) and not e['loops']:
                continue    # already one of the CASE lines
            effects.append((ind, f"{ind}RETURN {raw(e['value'])} WHEN {pc_text(e['pc'])}", frozenset(e['pc'])))
        elif k == 'break':
            if id(e) in exit_ret:
                effects.append((ind, f"{ind}RETURN {raw(exit_ret[id(e)])} WHEN {pc_text(e['pc'])}", frozenset(e['pc'])))
            elif e.get('value') is not None and isinstance(tu, tuple) and tu and tu[0] == 'loopval' and tu[1] in e['loops'][-1:]:
                # `break v` out of the loop whose value is the function's value: a return of v
                effects.append((ind, f"{ind}RETURN {raw(e['value'])} WHEN {pc_text(e['pc'])}", frozenset(e['pc'])))
            else:
                effects.append((ind, f"{ind}BREAK WHEN {pc_text(e['pc'])}", frozenset(e['pc'])))
        elif k == 'panic':
            # an assert / panic!() / unreachable!() of the function itself (also debug-only ones in the debug configuration)
            effects.append((ind, f"{ind}PANIC WHEN {pc_text(e['pc'])}", frozenset(e['pc'])))
        elif k == 'unwrap':
            # `.unwrap()` / `.expect()` panics exactly when the option is None (the same line as a `panic!()` in the None arm)
            a = T.unroot(e['arg'])
            if isinstance(a, tuple) and a and a[0] in ('optproj', 'optmap') and isinstance(a[1], tuple) and a[1] and a[1][0] == 'first':
                a = a[1]
            if isinstance(a, tuple) and a and a[0] in ('some', 'ok'):
                continue
            kind = 'Ok' if 'Result' in str(e['node'].get('recv_ty', '')) else 'Some'
            fail = T.tnot(('matches', a, kind))
            pcs = tuple(e['pc']) + (fail,)
            effects.append((ind, f"{ind}PANIC WHEN {pc_text(pcs)}", frozenset(pcs)))
        elif k == 'mutcall':
            callt = ('call', e['callee'].split('::')[-1], tuple(T.unroot(CANON(a)) for a in e['args'][1:]))
            for cpc, cv in cases(callt):
                cv = T.unroot(cv)
                effects.append((ind, f"{ind}MUT {e.get('place')}.{cv[1]}({', '.join(raw(a) for a in cv[2])}) WHEN {pc_text(tuple(e['pc']) + tuple(cpc))}",
                                frozenset(tuple(e['pc']) + tuple(cpc))))
    ev.struct['other_effects'] = sorted(t for _, t, _ in effects if not t.lstrip().startswith('SET '))
    # what holds where the effects happen: indices evaluated earlier on the way were in bounds
    for e in ev.events:
        if e['kind'] == 'index' and e['depth'] == 0 and not e['loops'] and isinstance(e.get('idx'), tuple) and not T.is_bool(e['idx']) \
                and not (isinstance(T.unroot(e['idx']), tuple) and T.unroot(e['idx'])[0] == 'range'):
            base = T.unroot(e['base'])
            ev.struct['facts'].append((CANON(T.tand(*e['pc'])) if e['pc'] else T.TRUE,
                                       CANON(T.le0(T.add(T.sub(T.as_lin(e['idx']), T.root(('len', base))), T.const(1))))))
    lines.extend(order_effects(effects))
    # initial values of loop-carried variables
    for nid, l in loops.items():
        assigned = {}
        for x in ev.events:
            if x['kind'] == 'assign' and nid in x['loops'] and x['depth'] == 0 and x.get('local') is not None:
                assigned[x['local']] = True
        for x in ev.events:
            if x['kind'] == 'mutcall' and nid in x['loops'] and x['depth'] == 0 and x.get('target') is not None:
                assigned[x['target']] = True
        for lid in sorted(assigned):
            if lid in (l.get('derived') or ()):
                continue
            init = l['env_before'].get(lid)
            b = body.binders.get(lid)
            name = b['bind']['name'] if b else f'#{lid}'
            if init is not None and not (isinstance(T.unroot(init), tuple) and T.unroot(init)[0] in ('havoc', 'elemhavoc')):
                line = f"INIT {name} = {raw(init)}"
                if line not in lines:
                    lines.append(line)
    text = '\n'.join(lines)

    # loop-carried values of a helper evaluated in place belong to the helper's body
    owner = {}
    for e in ev.events:
        if e['kind'] == 'loop' and e.get('body') and e['body'] != body.path:
            ob = crate.body(e['body'])
            if ob is not None:
                owner[e['node'].get('_nid')] = ob

    def name_of(m):
        lid = int(m.group(1))
        nid = int(m.group(2)) if m.lastindex and m.lastindex >= 2 else None
        src = owner.get(nid, body)
        b = src.binders.get(lid)
        return (b['bind']['name'] if b else 'var') + '°'
    text = re.sub(r'havoc\((\d+), (\d+)\)', name_of, text)
    text = re.sub(r'elemhavoc\((?:[^()]|\([^()]*\))*, (\d+), (\d+)\)', name_of, text)
    # names of locals are arbitrary: number them by first appearance (parameters are p0, p1, ..; `self` stays)
    names = []
    for b in list(body.binders.values()) + [x for ob in owner.values() for x in ob.binders.values()]:
        if b['kind'] in ('let', 'iflet', 'arm', 'cparam'):
            nm = b['bind']['name']
            if nm not in names and nm != 'self':
                names.append(nm)
    order = []
    for m in re.finditer(r'\b([A-Za-z_][A-Za-z0-9_]*)(?=°|\[|\.| :=| = )', text):
        nm = m.group(1)
        if nm in names and nm not in order:
            order.append(nm)
    for i, nm in enumerate(order):
        text = re.sub(r'(?<![A-Za-z0-9_.:$])' + re.escape(nm) + r'(?=°|\[|\.(?!\.)| :=| = )', f'local{i + 1}', text)
    # names of crate-private structs (also those declared inside a function) are not observable: renaming one, or hoisting a
    # function-local struct to module level, does not change a summary
    for nm in _private_struct_names(crate):
        text = re.sub(r'(?<![A-Za-z0-9_:])' + re.escape(nm) + r'(?=\{)', '_', text)
    return canon_text(text), ev


_PRIV_NAMES = {}


def _private_struct_names(crate):
    cid = id(crate)
    if cid not in _PRIV_NAMES:
        pub = {p.rsplit('::', 1)[-1] for p, a in crate.adts.items() if str(a.get('vis', '')) == 'Public'}
        priv = {p.rsplit('::', 1)[-1] for p, a in crate.adts.items() if a.get('kind') == 'Struct' and str(a.get('vis', '')) != 'Public'}
        _PRIV_NAMES[cid] = (sorted(priv - pub, key=lambda x: -len(x)), crate)
    return _PRIV_NAMES[cid][0]
