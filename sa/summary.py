"""Canonical summary of a function: its value term plus, for each loop, one symbolic iteration
(iterator / guard, initial values of the loop-carried variables, every assignment / return / break /
mutating call with its path condition).  Node numbers are anonymised; bound variables are numbered by
nesting; `name°` denotes the value of a loop-carried variable at the head of an iteration."""

import re

from . import term as T
from .evalr import Evaluator
from .sites import canon_text


def raw(t):
    return T.show(T.canon(t))


def pc_text(pc):
    return ' && '.join(sorted(raw(c) for c in pc)) or 'always'


def cases(value, pc=()):
    """guarded-case normal form of a function value: split conditionals at the top of the term"""
    v = T.unroot(value)
    if isinstance(v, tuple) and v and v[0] == 'ite':
        return cases(v[2], pc + (v[1],)) + cases(v[3], pc + (T.tnot(v[1]),))
    return [(pc, value)]


def summarise(crate, body, args=None):
    ev = Evaluator(crate)
    top = ev.eval_entry(body, args)
    lines = []
    all_cases = [(tuple(ev.fallthrough_pc) + pc, v) for pc, v in cases(T.canon(top))]
    # early exits that are not part of the value term (`?` on an Option) are cases of the function's value too
    for e in ev.events:
        if e['kind'] == 'ret' and e['depth'] == 0 and not e['loops'] and not e.get('joined'):
            all_cases.append((tuple(e['pc']), T.canon(e['value'])))
            e['as_case'] = True
    for pc, v in all_cases:
        cond = T.canon(T.tand(*pc)) if pc else T.TRUE
        if cond == T.FALSE:
            continue
        lines.append(('RET ' + raw(v)) if cond == T.TRUE else f'CASE {raw(cond)} => {raw(v)}')
    lines[:] = sorted(set(lines))
    loops = {}
    reduced = set()
    for e in ev.events:
        if e['kind'] == 'loop' and e.get('reduced'):
            reduced.add(e['node'].get('_nid'))
    for e in ev.events:
        if e['depth'] != 0:
            continue
        if any(l in reduced for l in e['loops']):
            continue
        k = e['kind']
        ind = '  ' * len(e['loops'])
        if k == 'loop':
            nid = e['node'].get('_nid')
            if nid in reduced:
                continue    # an accumulator loop: its value is part of the terms above
            loops[nid] = e
            head = f"{ind}LOOP[{e.get('src')}]"
            if e.get('iter') is not None:
                head += ' over ' + raw(e['iter'])
            lines.append(head)
        elif k == 'assign':
            tgt = e.get('name', '?') + ''.join('.' + f for f in e.get('fields', ()) if f != '[]')
            lines.append(f"{ind}SET {tgt} := {raw(e['value'])} WHEN {pc_text(e['pc'])}")
        elif k == 'ret':
            if (e.get('joined') or e.get('as_case')) and not e['loops']:
                continue    # already one of the CASE lines
            lines.append(f"{ind}RETURN {raw(e['value'])} WHEN {pc_text(e['pc'])}")
        elif k == 'break':
            lines.append(f"{ind}BREAK WHEN {pc_text(e['pc'])}")
        elif k == 'mutcall':
            lines.append(f"{ind}MUT {e.get('place')}.{e['callee'].split('::')[-1]}({', '.join(raw(a) for a in e['args'][1:])}) WHEN {pc_text(e['pc'])}")
    # initial values of loop-carried variables
    for nid, l in loops.items():
        assigned = {}
        for x in ev.events:
            if x['kind'] == 'assign' and nid in x['loops'] and x['depth'] == 0 and x.get('local') is not None:
                assigned[x['local']] = True
        for x in ev.events:
            if x['kind'] == 'mutcall' and nid in x['loops'] and x['depth'] == 0 and x.get('target') is not None:
                assigned[x['target']] = True
        for lid in sorted(assigned):
            init = l['env_before'].get(lid)
            b = body.binders.get(lid)
            name = b['bind']['name'] if b else f'#{lid}'
            if init is not None and not (isinstance(T.unroot(init), tuple) and T.unroot(init)[0] in ('havoc', 'elemhavoc')):
                line = f"INIT {name} = {raw(init)}"
                if line not in lines:
                    lines.append(line)
    text = '\n'.join(lines)

    def name_of(m):
        b = body.binders.get(int(m.group(1)))
        return (b['bind']['name'] if b else 'var') + '°'
    text = re.sub(r'havoc\((\d+), \d+\)', name_of, text)
    text = re.sub(r'elemhavoc\((?:[^()]|\([^()]*\))*, (\d+), \d+\)', name_of, text)
    # names of locals are arbitrary: number them by first appearance (parameters are p0, p1, ..; `self` stays)
    names = []
    for b in body.binders.values():
        if b['kind'] in ('let', 'iflet', 'arm', 'cparam'):
            nm = b['bind']['name']
            if nm not in names and nm != 'self':
                names.append(nm)
    order = []
    for m in re.finditer(r'\b([A-Za-z_][A-Za-z0-9_]*)(?=°|\[|\.| :=| = )', text):
        nm = m.group(1)
        if nm in names and nm not in order:
            order.append(nm)
    for i, nm in enumerate(order):
        text = re.sub(r'(?<![A-Za-z0-9_.:$])' + re.escape(nm) + r'(?=°|\[|\.(?!\.)| :=| = )', f'local{i + 1}', text)
    return canon_text(text), ev
