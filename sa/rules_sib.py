"""C19: sibling analyses reduce to one another under the substitutions the property names.

Each reduction is a *term identity*: the equations recovered from one entry point, after substituting the
special-case parameter values, must be identical (as canonical terms) to the equations recovered from the
other entry point.  Nothing is run."""

from . import term as T
from .report import AnchorMissing
from .rta_model import RtaModel, ANALYSES, A, X, O, DELTA, P, RBF, is_tag
from .rules_rta import with_af, rename_foreach
from .facts import loc

TUA = T.var('TUA')          # the task under analysis' request bound
ORBF = T.var('ORBF')        # request bound of another task o
BLK = T.var('B')            # blocking bound (FP)
C = T.var('C')              # WCET of the task under analysis
LAST = T.var('LAST')        # last non-preemptive segment
SEG = T.var('SEG')          # max non-preemptive segment of another task o
CO = T.var('C_o')           # WCET of another task o


def record(m, spec, symbols):
    """equations of one analysis, expressed over common symbols"""
    def norm(t):
        t = T.norm_bv(T.alpha(t))     # binders numbered by nesting: independent lambdas of one term all start at $0
        return T.substitute(t, symbols)

    rec = {}
    rec['BW'] = norm(m.BW())
    if spec['family'] == 'FIFO':
        rec['RES'] = norm(m.per_offset)
    else:
        rec['OFF'] = norm(simplify(T.substitute(norm(m.OFF()), {})))
        res, AF = with_af(m.per_offset, m.off_calls)
        rec['RES'] = norm(res)
    comps = []
    for c in m.components:
        src = T.unroot(rename_foreach(c['source'], c))
        shift = DELTA if c['shift'] is None else T.substitute(rename_foreach(c['shift'][2], c), {T.bv(c['shift'][1]): DELTA})
        bound = None
        if c['bound'] is not None:
            bound = T.substitute(rename_foreach(c['bound'][2], c), {T.bv(c['bound'][1]): A})
            if len(m.bw_calls) == 1:
                bound = T.substitute(bound, {('try', m.bw_calls[0]): T.var('L')})
        comps.append((norm_sym(src, symbols), norm_sym(shift, symbols), norm_sym(bound, symbols) if bound is not None else None,
                      c['foreach'] is not None))
    rec['SPACE'] = sorted(comps, key=T.key)
    return rec


def norm_sym(t, symbols):
    # foreach variables were renamed to `o`; symbols over $0 must be re-expressed over o
    sym2 = {}
    for k, v in symbols.items():
        sym2[T.substitute(k, {T.bv(0): O})] = v
        sym2[k] = v
    return T.substitute(t, sym2)


def simplify(t):
    """max{maxof(map(_, λ. k)), k} = k  (a maximum of a constant with the same default)"""
    def walk(x):
        if not isinstance(x, tuple):
            return x
        if T.is_lin(x):
            acc = T.const(x[1])
            for r, c in x[2]:
                acc = T.add(acc, T.scale(T.as_lin(walk(r)), c))
            return acc
        x = tuple(walk(y) for y in x)
        if is_tag(x, 'max') and len(x[1]) == 2:
            consts = [c for c in x[1] if T.is_const(c)]
            mo = [T.unroot(c) for c in x[1] if is_tag(T.unroot(c), 'maxof')]
            if len(consts) == 1 and len(mo) == 1 and is_tag(mo[0][1], 'map') and is_tag(mo[0][1][2], 'lam'):
                body = mo[0][1][2][2]
                if T.is_const(T.as_lin(body)) and T.as_lin(body) == consts[0]:
                    return consts[0]
        return T.renorm(x)
    return walk(t)


def sub_all(rec, mapping):
    out = {}
    for k, v in rec.items():
        if k == 'SPACE':
            out[k] = sorted([(T.substitute(a, mapping), T.substitute(b, mapping),
                              T.substitute(c, mapping) if c is not None else None, d) for a, b, c, d in v], key=T.key)
        else:
            out[k] = simplify(T.substitute(v, mapping))
    return out


def symbols_for(path):
    """map the concrete parameter terms of an analysis to the common symbols"""
    spec = ANALYSES[path]
    fam, kind = spec['family'], spec['kind']
    s = {}
    if fam == 'FP':
        s[T.unroot(spec['tua'])] = TUA
        if kind != 'P':
            s[T.unroot(P(0, 'blocking_bound'))] = BLK
        if kind in ('NP', 'LP'):
            s[T.unroot(P(0, 'wcet', 'wcet'))] = C
        if kind == 'LP':
            s[T.unroot(P(0, 'last_np_segment'))] = LAST
    elif fam == 'EDF':
        s[T.unroot(spec['tua'])] = TUA
        e = T.bv(0)
        if kind == 'NP':
            s[RBF(T.fld(e, 'arrivals'), T.fld(e, 'wcet'))] = ORBF
            s[T.fld(T.fld(e, 'wcet'), 'wcet')] = CO
            s[T.unroot(P(0, 'wcet', 'wcet'))] = C
        else:
            s[T.fld(e, 'rbf')] = ORBF
        if kind in ('LP', 'FNP'):
            s[T.fld(e, 'max_np_segment')] = SEG
        if kind == 'LP':
            s[T.unroot(P(0, 'wcet', 'wcet'))] = C
            s[T.unroot(P(0, 'last_np_segment'))] = LAST
    return s


REDUCTIONS = [
    # (name, general analysis, substitution on the general one, special analysis, substitution on the special one)
    ('FP: LP[last:=1, B:=0] == P', 'fixed_priority::limited_preemptive', {LAST: T.const(1), BLK: T.const(0)}, 'fixed_priority::fully_preemptive', {}),
    ('FP: LP[last:=C] == NP', 'fixed_priority::limited_preemptive', {LAST: C}, 'fixed_priority::fully_nonpreemptive', {}),
    ('FP: LP[last:=1] == FNP', 'fixed_priority::limited_preemptive', {LAST: T.const(1)}, 'fixed_priority::floating_nonpreemptive', {}),
    ('EDF: LP[last:=1, seg:=1] == P', 'edf::limited_preemptive', {LAST: T.const(1), SEG: T.const(1)}, 'edf::fully_preemptive', {}),
    ('EDF: LP[last:=C, seg:=C_o] == NP', 'edf::limited_preemptive', {LAST: C, SEG: CO}, 'edf::fully_nonpreemptive', {}),
    ('EDF: LP[last:=1] == FNP', 'edf::limited_preemptive', {LAST: T.const(1)}, 'edf::floating_nonpreemptive', {}),
]


def check_reductions(rep, crate):
    models = {}
    recs = {}
    for path, spec in ANALYSES.items():
        if spec['family'] == 'FIFO':
            continue
        sh = '::'.join(path.split('::')[:-1])
        try:
            m = RtaModel(crate, path)
            models[sh] = m
            recs[sh] = record(m, spec, symbols_for(path))
        except AnchorMissing as ex:
            rep.bad('ANCHOR', f'ANCHOR:{sh}', path, f'cannot recover the analysis structure: {ex.what}', fn=path, why='fail closed')
    for name, gen, gsub, spc, ssub in REDUCTIONS:
        if gen not in recs or spc not in recs:
            continue
        g = sub_all(recs[gen], gsub)
        s = sub_all(recs[spc], ssub)
        for part in ('BW', 'OFF', 'RES', 'SPACE'):
            key = f'SIB:{name}:{part}'
            where = models[gen].where + ' ~ ' + models[spc].where
            if part == 'SPACE':
                same = g[part] == s[part]
                fa = '; '.join(f'steps({T.show(a)}) -> {T.show(b)} while {T.show(c) if c is not None else "-"}' for a, b, c, d in g[part])
                fb = '; '.join(f'steps({T.show(a)}) -> {T.show(b)} while {T.show(c) if c is not None else "-"}' for a, b, c, d in s[part])
            else:
                same = T.as_lin(g[part]) == T.as_lin(s[part]) if (T.is_lin(g[part]) or T.is_lin(s[part])) else g[part] == s[part]
                fa, fb = T.show(g[part]), T.show(s[part])
            if same:
                rep.ok('SIB', key, where, f'{part}: {fa}', f'identical under the substitution: {fb}', fn=gen)
            else:
                rep.bad('SIB', key, where, f'{part} of the general analysis under the substitution: {fa}',
                        f'{part} of the special analysis: {fb}', fn=gen,
                        why='the two analyses model the same system in this special case and must compute the same value')
    return len(recs)


ROS2_ENTRIES = ['ros2::ecrts19::rta_event_source', 'ros2::ecrts19::rta_timer', 'ros2::ecrts19::rta_polling_point_callback',
                'ros2::ecrts19::rta_processing_chain', 'ros2::ecrts19::bound_response_time', 'ros2::rr::rta_subchain',
                'ros2::bw::rta_subchain']


def check_supply_parametric(rep, crate):
    """every ROS 2 entry point uses its supply only through SupplyBound's two methods / hands it to search*:
       by parametricity the result depends on the supply only through provided_service / service_time"""
    n = 0
    for path in ROS2_ENTRIES:
        b = crate.body(path)
        if b is None:
            rep.bad('ANCHOR', f'ANCHOR:{path}', path, 'entry point not found', fn=path)
            continue
        n += 1
        where = loc(b.raw)
        # the supply parameter is parameter 0 of type &SBF with SBF: SupplyBound + ?Sized
        inputs = b.raw.get('inputs', [])
        gens = b.raw.get('generics', [])
        preds = b.raw.get('preds', [])
        sup_ty = inputs[0] if inputs else ''
        tyname = sup_ty.replace('&', '').strip()
        is_generic = tyname in gens
        bounds = [p for p in preds if f'<{tyname} as ' in p and 'TraitPredicate' in p]
        other = [p for p in bounds if 'supply::SupplyBound' not in p and 'Sized' not in p]
        if not is_generic or other:
            rep.bad('PARAM', f'PARAM:{path}:bounds', where, f'supply parameter has type {sup_ty} with bounds {bounds}',
                    'a type parameter bounded by SupplyBound (+ ?Sized) only', fn=path,
                    why='a concrete or further-bounded supply type lets the analysis depend on the kind of supply')
        else:
            rep.ok('PARAM', f'PARAM:{path}:bounds', where, f'supply is the type parameter {tyname}: SupplyBound + ?Sized', fn=path)
        # uses of parameter 0
        pid = None
        from .facts import pat_bindings
        for bd in pat_bindings(b.params[0]):
            pid = bd['id']
        bad_uses = []
        n_uses = 0
        for node in b.walk():
            if node.get('k') == 'Path' and node.get('res') == 'Local' and node.get('id') == pid:
                n_uses += 1
                par = b.parent.get(id(node))
                while par is not None and par.get('k') in ('AddrOf', 'DropTemps', 'Use') or (par is not None and par.get('k') == 'Unary' and par.get('op') == 'Deref'):
                    par = b.parent.get(id(par))
                ok = False
                if par is not None and par.get('k') == 'MethodCall' and par.get('callee') in (
                        'supply::SupplyBound::provided_service', 'supply::SupplyBound::service_time'):
                    ok = True
                if par is not None and par.get('k') == 'Call' and (par.get('callee') or '') in (
                        'fixed_point::search', 'fixed_point::search_with_offset', 'ros2::ecrts19::bound_response_time'):
                    ok = par['args'] and _is_path_to(par['args'][0], pid)
                elif par is not None and par.get('k') == 'Call' and par.get('callee') and crate.body(par['callee']) is not None:
                    # handed on to another function of the crate that is parametric in that argument itself
                    # (one analysis delegating to another, a private helper)
                    pos = [i for i, a_ in enumerate(par['args']) if _is_path_to(a_, pid)]
                    ok = len(pos) == 1 and _parametric_in(crate, crate.body(par['callee']), pos[0], 0)
                if not ok:
                    bad_uses.append(loc(node))
        if bad_uses:
            rep.bad('PARAM', f'PARAM:{path}:uses', where, f'supply is used outside SupplyBound\'s methods / search at {bad_uses}', fn=path)
        else:
            rep.ok('PARAM', f'PARAM:{path}:uses', where, f'{n_uses} use(s) of the supply: only provided_service / service_time / first argument of search*', fn=path)
    return n


def _parametric_in(crate, b, i, depth):
    """parameter i of b is a `&S` with S a type parameter bounded by SupplyBound (+ ?Sized) only, and b uses it only through
    SupplyBound's methods, search*, or by handing it on to a function for which the same holds"""
    if depth > 3 or i >= len(b.params):
        return False
    inputs = b.raw.get('inputs', [])
    tyname = (inputs[i] if i < len(inputs) else '').replace('&', '').strip()
    if tyname not in b.raw.get('generics', []):
        return False
    bounds = [p for p in b.raw.get('preds', []) if f'<{tyname} as ' in p and 'TraitPredicate' in p]
    if [p for p in bounds if 'supply::SupplyBound' not in p and 'Sized' not in p]:
        return False
    from .facts import pat_bindings
    pid = None
    for bd in pat_bindings(b.params[i]):
        pid = bd['id']
    for node in b.walk():
        if node.get('k') == 'Path' and node.get('res') == 'Local' and node.get('id') == pid:
            par = b.parent.get(id(node))
            while par is not None and par.get('k') in ('AddrOf', 'DropTemps', 'Use') or (par is not None and par.get('k') == 'Unary' and par.get('op') == 'Deref'):
                par = b.parent.get(id(par))
            if par is None:
                return False
            if par.get('k') == 'MethodCall' and par.get('callee') in ('supply::SupplyBound::provided_service', 'supply::SupplyBound::service_time'):
                continue
            if par.get('k') == 'Call' and (par.get('callee') or '') in ('fixed_point::search', 'fixed_point::search_with_offset') \
                    and par['args'] and _is_path_to(par['args'][0], pid):
                continue
            if par.get('k') == 'Call' and par.get('callee') and crate.body(par['callee']) is not None:
                pos = [j for j, a_ in enumerate(par['args']) if _is_path_to(a_, pid)]
                if len(pos) == 1 and _parametric_in(crate, crate.body(par['callee']), pos[0], depth + 1):
                    continue
            return False
    return True


def _is_path_to(e, pid):
    while e.get('k') in ('AddrOf', 'DropTemps', 'Use'):
        e = e['e']
    return e.get('k') == 'Path' and e.get('res') == 'Local' and e.get('id') == pid
