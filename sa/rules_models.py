"""Rules for the model layers (arrival/, wcet/, demand/): C10, C11, C12, C13, C14, C16.

REF    every model function's canonical summary (value term + one symbolic iteration per loop) equals the
       reviewed reference in spec/model_summaries.json
ZERO / JIT / DELEG / STEP / TRACE / CACHE   named necessary conditions with their own reasoning
"""

import difflib
import json
import os

from . import term as T
from . import summary as S
from .evalr import Evaluator
from .facts import loc, walk, pat_bindings
from .sites import implies_nonneg

VERIF = os.path.dirname(os.path.dirname(os.path.abspath(__file__)))

NA = 'arrival::ArrivalBound::number_arrivals'
STEPS_AB = 'arrival::ArrivalBound::steps_iter'
STEPS_RB = 'demand::RequestBound::steps_iter'
CWJ = 'arrival::ArrivalBound::clone_with_jitter'


def P(i, *fields):
    t = T.param(i)
    for f in fields:
        t = T.fld(t, f)
    return t


def load_refs():
    with open(os.path.join(VERIF, 'spec', 'model_summaries.json')) as f:
        return json.load(f)


# ---------------------------------------------------------------- REF

def check_ref(rep, crate, prop):
    refs = [e for e in load_refs() if prop in e['props']]
    n = 0
    for e in refs:
        b = crate.body(e['path'])
        key = f"REF:{e['path']}"
        if b is None and e.get('private'):
            n += 1
            rep.ok('REF', key, e['path'], 'private helper of the reference table no longer exists (inlined or unused); the summaries of its former callers cover its behaviour', fn=e['path'])
            continue
        if b is None:
            b = _moved_impl(crate, e, {x['path'] for x in load_refs()})
            if b is not None:
                n += 1
                rep.ok('REF', key, loc(b.raw), f'the method now lives at {b.path} (an impl of the same trait method for a crate-private type that was '
                       'renamed or moved) and has the reference summary', fn=e['path'])
                continue
        if b is None:
            rep.bad('REF', key, e['path'], 'function not found', 'the model function of the reference table', fn=e['path'],
                    why='fail closed: a model function disappeared or was renamed; re-review and regenerate the reference')
            continue
        try:
            got, _ = S.summarise(crate, b)
        except RecursionError:
            rep.bad('REF', key, loc(b.raw), 'evaluation did not terminate', fn=e['path'])
            continue
        n += 1
        got_l = got.split('\n')
        if got_l == e['summary']:
            rep.ok('REF', key, loc(b.raw), 'summary: ' + ' | '.join(got_l)[:400], fn=e['path'])
        elif semantic_relation(crate, e) == 'eq':
            rep.ok('REF', key, loc(b.raw), 'summary differs textually from the reference but is PROVED equal to it for all well-formed arguments '
                   '(linear entailment over the guarded cases of both): ' + ' | '.join(got_l)[:300], fn=e['path'])
        elif structural_equal(crate, e):
            rep.ok('REF', key, loc(b.raw), 'summary differs textually from the reference but its value cases and its assignments are PROVED equal '
                   'to the reference\'s term by term (piecewise-linear parts case by case; given the assignment\'s condition, in-bounds indices, type '
                   'invariants): ' + ' | '.join(got_l)[:300], fn=e['path'])
        else:
            d = [l for l in difflib.unified_diff(e['summary'], got_l, 'reference', 'current tree', lineterm='', n=0)
                 if not l.startswith(('---', '+++', '@@'))]
            rel = semantic_relation(crate, e)
            direction = {'ge': 'over: proved >= the reference for all well-formed arguments (and different somewhere)',
                         'le': 'under: proved <= the reference for all well-formed arguments (and different somewhere)'}.get(rel, 'not comparable')
            rep.bad('REF', key, loc(b.raw), 'canonical summary differs: ' + ' ;; '.join(d)[:900],
                    'reference: ' + ' | '.join(e['summary'])[:600], fn=e['path'], direction=direction,
                    why='the value computed by this model function (or one symbolic iteration of its loop) is no longer the '
                        'reviewed one; renames, re-ordering, let-introduction and helper extraction do not change a summary')
    n += check_inventory(rep, crate, prop)
    return n


def _moved_impl(crate, e, known):
    """the reference function `<PrivateType as Trait>::m` is gone: the unique other impl of Trait::m for a crate-private type,
    not itself in the reference table, whose summary is the reference summary (the type was renamed / hoisted out of a function)"""
    import re
    m = re.match(r'^<(.+) as ([^<>]+(?:<.*>)?)>::(\w+)$', e['path'])
    if not m:
        return None
    trait, meth = m.group(2).split('<')[0], m.group(3)
    hits = []
    for b in crate.body_list:
        if b.path in known or b.raw.get('assoc_name') != meth or b.raw.get('impl_trait') != trait:
            continue
        from .evalr import adt_head, strip_refs
        st = re.sub(r'/#\d+', '', strip_refs(b.raw.get('self_ty', '')))
        adt = crate.adts.get(adt_head(st))
        if adt is None or str(adt.get('vis', '')) == 'Public':
            continue
        try:
            got, _ = S.summarise(crate, b)
        except RecursionError:
            continue
        if got.split('\n') == e['summary']:
            hits.append(b)
    return hits[0] if len(hits) == 1 else None


def struct_ok(st):
    """the term-level summary can be compared across versions: no loop-carried unknowns (their numbering is not stable)"""
    bad = ('havoc', 'elemhavoc', 'item', 'loopval', 'index_of', 'clo', 'cp', 'patbind', 'free', 'opaque')
    def scan(x):
        if isinstance(x, (tuple, list)):
            if isinstance(x, tuple) and x and x[0] in bad:
                return False
            return all(scan(y) for y in x)
        return True
    return scan(st['cases']) and scan(st['effects']) and scan(st['facts'])


def structural_equal(crate, e):
    """REF fall-back for loop-free functions with effects or non-linear values: the value cases pair up as equal terms, the
    assignments are to the same places, in the same order, under equal conditions, of values that are equal wherever the
    assignment happens (given its condition, that indices evaluated before it were in bounds, the type invariants and
    divisors >= 1); every other effect line is textually the same.  Equality of terms: sa/linarith.terms_equal."""
    if 'struct' not in e:
        return False
    import ast
    from . import linarith, sites as SI
    try:
        ref = ast.literal_eval(e['struct'])
    except (ValueError, SyntaxError):
        return False
    b = crate.body(e['path'])
    _, ev = S.summarise(crate, b)
    cur = getattr(ev, 'struct', None)
    if cur is None or not struct_ok(cur):
        return False
    if ref.get('other_effects') != cur.get('other_effects') or len(ref['effects']) != len(cur['effects']) or len(ref['cases']) != len(cur['cases']):
        return False

    def assumptions(cond, facts, terms):
        out = []
        cs = linarith._conds(cond) if cond != T.TRUE else [[]]
        if cs is not None and len(cs) == 1:
            out += cs[0]
        for fc, f in facts:
            # the index was evaluated on every path to this effect (its condition is part of the effect's)
            if fc == T.TRUE or fc == cond:
                d = linarith._conds(f)
                if d is not None and len(d) == 1:
                    out += d[0]
        for f in SI.type_invariant_facts(list(terms) + [x for x in out]):
            d = linarith._conds(f)
            if d is not None and len(d) == 1:
                out += d[0]
        for t in terms:
            for x in T.subterms(t):
                if isinstance(x, tuple) and x and x[0] in ('div', 'rem'):
                    out.append(T.sub(T.const(1), T.as_lin(x[2])))
        return out
    try:
        left = list(cur['cases'])
        for rc, rv in ref['cases']:
            hit = next((i for i, (cc, cv) in enumerate(left) if linarith.terms_equal(rc, cc) and
                        linarith.terms_equal(rv, cv, assumptions(rc, [], [rv, cv]))), None)
            if hit is None:
                return False
            left.pop(hit)
        for (rk, rt, rv, rc), (ck, ct, cv, cc) in zip(ref['effects'], cur['effects']):
            if (rk, rt) != (ck, ct) or not linarith.terms_equal(rc, cc):
                return False
            if not linarith.terms_equal(rv, cv, assumptions(rc, ref['facts'] + cur['facts'], [rv, cv])):
                return False
        return True
    except RecursionError:
        return False


_REL_CACHE = {}


def semantic_relation(crate, e):
    """closed-form, effect-free, piecewise-linear functions compared with the reference as *functions* (for every
    argument satisfying the constructor's asserts), decided by sa/linarith.py: 'eq', 'ge' (current >= reference
    everywhere), 'le', or None (not decided)"""
    k = (id(crate), e['path'])
    if k not in _REL_CACHE:
        _REL_CACHE[k] = _semantic_relation(crate, e)
    return _REL_CACHE[k]


def _semantic_relation(crate, e):
    if 'cases' not in e:
        return None
    from . import rules_sem, linarith
    import ast
    try:
        ref = ast.literal_eval(e['cases'])
        cur = rules_sem.pure_lin_cases(crate, e['path'], allow_calls=True)
        if cur is None:
            return None
        # the effects (mutating calls on the cache etc.) must be the very same lines
        b = crate.body(e['path'])
        got, _ = S.summarise(crate, b)
        eff = lambda ls: [l for l in ls if not l.startswith(('RET ', 'CASE '))]
        if eff(got.split('\n')) != eff(e['summary']):
            return None
        wf = rules_sem.self_type_wf(crate, e['path'])
        # divisors are at least 1 on well-formed input (a zero divisor panics in every profile)
        for g, v in cur + ref:
            for t in g + [v]:
                for x in T.subterms(t):
                    if isinstance(x, tuple) and x and x[0] in ('div', 'rem'):
                        f = T.sub(T.const(1), T.as_lin(x[2]))
                        if f not in wf:
                            wf.append(f)
        if linarith.equal_under(cur, ref, wf)[0]:
            return 'eq'
        if linarith.holds_between(ref, cur, wf, 0, None, steps=True)[0]:
            return 'ge'
        if linarith.holds_between(cur, ref, wf, 0, None, steps=True)[0]:
            return 'le'
        return None
    except Exception:
        return None


MODEL_TRAITS = {'arrival::ArrivalBound': None, 'wcet::JobCostModel': 'C14', 'demand::RequestBound': 'C16',
                'demand::AggregateRequestBound': 'C16', 'supply::SupplyBound': 'C09'}
INVENTORY_EXEMPT = (
    # reported by STEP-NONZERO as a known finding, never pinned as a reference
    '<arrival::arrival_curve_prefix::ArrivalCurvePrefix as arrival::ArrivalBound>::steps_iter',
)


def check_inventory(rep, crate, prop):
    """every implementation of a method of the model traits is in the reference table: an added override (e.g. a
    closed-form shortcut replacing a default method) is an unreviewed model function"""
    norm = lambda q: q[q.index('<impl '):] if '::<impl ' in q else q
    known = {norm(e['path']) for e in load_refs()}
    n = 0
    for b in crate.body_list:
        tr = b.raw.get('impl_trait') or (b.raw.get('trait') if not b.raw.get('impl') else None)
        if tr not in MODEL_TRAITS or b.path in INVENTORY_EXEMPT:
            continue
        owner = MODEL_TRAITS[tr]
        if owner is None:
            owner = 'C11' if b.raw.get('assoc_name') in ('steps_iter', 'brute_force_steps_iter') else 'C10'
        if owner != prop:
            continue
        n += 1
        if norm(b.path) in known:
            continue
        got, _ = S.summarise(crate, b)
        rep.bad('REF', f'REF-NEW:{b.path}', loc(b.raw), 'implementation of a model-trait method that is not in the reviewed reference table: ' + got[:300],
                'every implementation of ArrivalBound / JobCostModel / RequestBound methods is reviewed and listed', fn=b.path,
                direction='not comparable',
                why='a new override replaces the reviewed default (or adds a model); review it against the definition and regenerate spec/model_summaries.json')
    return 0


# ---------------------------------------------------------------- helpers on iterator terms

def is_tag(t, tag):
    return isinstance(t, tuple) and bool(t) and t[0] == tag


def item_lower_bound(it, fuel=10):
    """a constant lower bound of the items of an iterator term, or None if unknown"""
    it = T.unroot(it)
    if fuel <= 0 or not isinstance(it, tuple) or not it:
        return None
    tag = it[0]
    if tag == 'once':
        v = T.as_lin(it[1])
        return v[1] if T.is_const(v) else (0 if True else None)
    if tag == 'empty':
        return 10 ** 9
    if tag == 'range':
        lo = T.as_lin(it[1])
        return lo[1] if T.is_const(lo) else 0
    if tag in ('filter', 'take_while', 'skip_while', 'take', 'skip', 'dedup', 'rev', 'sorted', 'step_by'):
        lb = item_lower_bound(it[1], fuel - 1)
        if tag == 'filter' and is_tag(it[2], 'lam'):
            # a filter `c <= item` raises the bound
            pred = it[2][2]
            x = T.bv(it[2][1])
            for conj in (pred[1] if is_tag(pred, 'and') else (pred,)):
                if is_tag(conj, 'le0'):
                    l = conj[1]
                    rs = T.lin_roots(l)
                    if rs.get(x) == -1 and all(c >= 0 for r, c in rs.items() if r != x):
                        lb = max(lb if lb is not None else 0, l[1])
        return lb
    if tag in ('chain', 'merge'):
        a, b = item_lower_bound(it[1], fuel - 1), item_lower_bound(it[2], fuel - 1)
        if a is None or b is None:
            return None
        return min(a, b)
    if tag == 'map' and is_tag(it[2], 'lam'):
        inner = item_lower_bound(it[1], fuel - 1)
        body = T.as_lin(it[2][2])
        x = T.bv(it[2][1])
        rs = T.lin_roots(body)
        if any(r != x and T.mentions(r, x) for r in rs):
            return None     # the item enters through a projection / call: no bound derived
        if inner is None:
            inner = 0
        if all(c >= 0 for c in rs.values()):
            # monotone in every root; roots other than the item are >= 0
            return body[1] + rs.get(x, 0) * inner
        # subtraction of a parameter: bounded below through an upstream filter  c + p <= item
        src = T.unroot(it[1])
        if is_tag(src, 'filter') and is_tag(src[2], 'lam'):
            pred = T.substitute(src[2][2], {T.bv(src[2][1]): x})
            for conj in (pred[1] if is_tag(pred, 'and') else (pred,)):
                if is_tag(conj, 'le0'):
                    # conj: L <= 0.  body - k >= 0 follows if body - k + L is a non-negative form
                    for k in range(3, -1, -1):
                        if implies_nonneg(T.sub(body, T.const(k)), (conj,)):
                            return k
        return None
    if tag in ('kmerge', 'flat_map'):
        inner = T.unroot(it[1])
        if is_tag(inner, 'map') and is_tag(inner[2], 'lam'):
            return item_lower_bound(inner[2][2], fuel - 1)
        return None
    if tag == 'elems':
        src = it[1]
        if is_tag(src, 'call') and src[1].endswith('::steps_iter'):
            return 1        # the clause itself, for the delegate
        return None
    return None


def literal_zero_item(it, fuel=12):
    """an explicit `once(0)` source on the item path of the pipeline (through item-preserving stages only)"""
    it = T.unroot(it)
    if fuel <= 0 or not isinstance(it, tuple) or not it:
        return False
    if it[0] == 'once':
        return T.as_lin(it[1]) == T.const(0)
    if it[0] in ('chain', 'merge'):
        return literal_zero_item(it[1], fuel - 1) or literal_zero_item(it[2], fuel - 1)
    if it[0] in ('filter', 'take_while', 'skip_while', 'take', 'dedup', 'rev', 'sorted', 'step_by', 'cycle'):
        return literal_zero_item(it[1], fuel - 1)
    return False


# ---------------------------------------------------------------- STEP (C11)

def steps_impls(crate):
    out = []
    for b in crate.body_list:
        if b.raw.get('assoc_name') in ('steps_iter', 'brute_force_steps_iter') and b.raw.get('kind') == 'AssocFn':
            if (b.raw.get('impl_trait') in ('arrival::ArrivalBound', 'demand::RequestBound')) or \
               (b.raw.get('trait') in ('arrival::ArrivalBound', 'demand::RequestBound')):
                out.append(b)
    return out


def check_step_nonzero(rep, crate):
    """no steps_iter yields 0: interval lengths are >= 1"""
    n = 0
    for b in steps_impls(crate):
        if b.mac and 'auto_impl' in b.mac:
            continue
        ev = Evaluator(crate)
        t = T.unroot(ev.eval_body(b))
        n += 1
        key = f'STEP-NONZERO:{b.path}'
        where = loc(b.raw)
        if literal_zero_item(t):
            rep.bad('STEP-NONZERO', key, where, f'the iterator yields the constant 0: {T.show(t)[:200]}',
                    'every item is an interval length >= 1', fn=b.path, direction='0 is not an interval length',
                    why='demand::step_offsets / ecrts19 compute `delta - 1` for every item: a debug build panics, a release build wraps and the analyses return Ok(0)')
            continue
        if is_tag(t, 'struct') or is_tag(t, 'ite') or not isinstance(t, tuple):
            rep.ok('STEP-NONZERO', key, where, f'no zero constant reaches the items (custom iterator / branch: {T.show(t)[:120]})', fn=b.path)
            continue
        lb = item_lower_bound(t)
        if lb is None:
            rep.ok('STEP-NONZERO', key, where, f'no zero constant reaches the items; lower bound not derived: {T.show(t)[:160]}', nontrivial=True, fn=b.path)
            rep.undecided_note('STEP-NONZERO', key, where, 'lower bound of the items not derived (no literal zero found)')
        elif lb >= 1:
            rep.ok('STEP-NONZERO', key, where, f'every item is >= {min(lb, 10**6)}: {T.show(t)[:160]}', fn=b.path)
        else:
            rep.bad('STEP-NONZERO', key, where, f'items can be as small as {lb}: {T.show(t)[:200]}', 'every item >= 1', fn=b.path)
    return n


def check_step_seams(rep, crate):
    """Sporadic / Propagated: once(1) chained with a shifted, filtered tail -- the filter must keep exactly the
       shifted values >= 2 (strictly increasing, nothing dropped), guard and shift over the same jitter"""
    n = 0
    for path, jit in (('<arrival::sporadic::Sporadic as arrival::ArrivalBound>::steps_iter', P(0, 'jitter')),
                      ('<arrival::propagated::Propagated<T> as arrival::ArrivalBound>::steps_iter', P(0, 'response_time_jitter'))):
        b = crate.body(path)
        key = f'STEP-SEAM:{path}'
        if b is None:
            rep.bad('ANCHOR', key, path, 'steps_iter implementation not found', fn=path)
            continue
        t = T.unroot(Evaluator(crate).eval_body(b))
        where = loc(b.raw)
        n += 1
        if not is_tag(t, 'chain'):
            rep.bad('STEP-SEAM', key, where, f'not of the form first-step ++ shifted tail: {T.show(t)[:200]}', fn=path)
            continue
        head, tail = T.unroot(t[1]), T.unroot(t[2])
        hsrc = head[1] if is_tag(head, 'filter') else head
        if not (is_tag(hsrc, 'once') and T.as_lin(hsrc[1]) == T.const(1)):
            rep.bad('STEP-SEAM', key + ':first', where, f'first element is {T.show(head)[:120]}', 'the step at delta = 1', fn=path)
        if not (is_tag(tail, 'map') and is_tag(tail[1], 'filter')):
            rep.bad('STEP-SEAM', key, where, f'tail is {T.show(tail)[:200]}', 'filter(..).map(shift)', fn=path)
            continue
        x = T.bv(tail[2][1])
        shift = T.as_lin(tail[2][2])
        pred = T.substitute(tail[1][2][2], {T.bv(tail[1][2][1]): x})
        want = T.cmp('Ge', shift, T.const(2))
        if pred == want:
            rep.ok('STEP-SEAM', key, where, f'tail keeps exactly the shifted steps {T.show(shift)} that are >= 2 (guard {T.show(pred)})', fn=path)
        else:
            from .compare import Cmp
            b_ = Cmp().cmp_bool(pred, want)
            rep.bad('STEP-SEAM', key, where, f'tail keeps the shifted steps {T.show(shift)} when {T.show(pred)}', f'exactly when {T.show(want)}', fn=path,
                    direction={'stronger': 'steps are dropped (a step offset is missing from every search space built on it)',
                               'weaker': 'a value < 2 is yielded: not strictly increasing after the leading 1'}.get(b_, 'not comparable'))
        if T.lin_roots(shift).get(T.unroot(jit), 0) != -1:
            rep.bad('STEP-SEAM', key + ':jitter', where, f'shift {T.show(shift)} does not subtract the jitter exactly once', fn=path)
    return n


def check_step_dedup(rep, crate):
    """composite steps_iter: an order-preserving merge of every component's steps followed by dedup"""
    n = 0
    for b in steps_impls(crate):
        if b.mac and 'auto_impl' in b.mac:
            continue
        t = T.unroot(Evaluator(crate).eval_body(b))
        has_merge = any(is_tag(x, 'kmerge') or is_tag(x, 'merge') for x in T.subterms(t))
        if not has_merge:
            continue
        n += 1
        key = f'STEP-DEDUP:{b.path}'
        if is_tag(t, 'dedup') and (is_tag(T.unroot(t[1]), 'kmerge') or is_tag(T.unroot(t[1]), 'merge')):
            inner = T.unroot(t[1])
            comps_ok, why = _all_components(inner, b)
            if comps_ok:
                rep.ok('STEP-DEDUP', key, loc(b.raw), f'{T.show(t)[:160]}: {why}', fn=b.path)
            else:
                rep.bad('STEP-DEDUP', key, loc(b.raw), f'{T.show(t)[:200]}', 'the steps of every component, each exactly once', fn=b.path,
                        direction=why)
        else:
            rep.bad('STEP-DEDUP', key, loc(b.raw), f'merged steps are not deduplicated: {T.show(t)[:200]}', 'dedup(kmerge/merge(..))', fn=b.path,
                    direction='not strictly increasing when two components step together')
    return n


def _all_components(inner, b):
    """the merged iterators are the steps of every component of the composite, each once"""
    if inner[0] == 'merge':
        srcs = []
        for side in (inner[1], inner[2]):
            side = T.unroot(side)
            if is_tag(side, 'elems') and is_tag(side[1], 'call') and side[1][1].endswith('::steps_iter'):
                srcs.append(side[1][2][0])
            else:
                return False, f'a merged operand is not a component\'s steps: {T.show(side)[:80]}'
        want = {('f', P(0), '#0'), ('f', P(0), '#1')}
        if set(srcs) == want and len(srcs) == 2:
            return True, 'steps of both components'
        return False, f'merged steps come from {[T.show(x) for x in srcs]}: a component\'s steps are missing (its step offsets drop out of every search space)'
    # kmerge(map(elems(collection), λc. steps_iter(c)))
    m = T.unroot(inner[1])
    if is_tag(m, 'map') and is_tag(m[1], 'elems') and is_tag(m[2], 'lam'):
        body = T.unroot(m[2][2])
        if is_tag(body, 'call') and body[1].endswith('::steps_iter') and body[2][0] == T.bv(m[2][1]):
            return True, 'steps of every element of the collection'
        return False, f'components are mapped through {T.show(body)[:80]}'
    return False, 'an adaptor other than iter().map() sits between the components and the merge (components can be dropped)'


def check_step_conversion(rep, crate):
    """interval length -> offset conversion subtracts exactly one"""
    b = crate.body('demand::step_offsets')
    if b is None:
        rep.bad('ANCHOR', 'STEP-CONV:step_offsets', 'demand::step_offsets', 'function not found', fn='demand::step_offsets')
        return 0
    t = T.unroot(Evaluator(crate).eval_body(b))
    want = ('map', ('elems', T.call(STEPS_RB, P(0))), ('lam', 0, T.sub(T.bv(0), T.const(1))))
    if T.same(t, want):
        rep.ok('STEP-CONV', 'STEP-CONV:step_offsets', loc(b.raw), 'every step delta of the request bound becomes the offset delta - 1, nothing else', fn=b.path)
    else:
        rep.bad('STEP-CONV', 'STEP-CONV:step_offsets', loc(b.raw), T.show(t)[:200], T.show(want), fn=b.path)
    return 1


# ---------------------------------------------------------------- ZERO / JIT / DELEG (C10, C16)

def impls_of(crate, trait, method):
    out = []
    for b in crate.body_list:
        if b.raw.get('assoc_name') == method and b.raw.get('impl_trait') == trait:
            out.append(b)
    return out


def check_zero(rep, crate):
    """every number_arrivals is 0 at delta = 0 by an accepted form"""
    n = 0
    delta = P(1)
    for b in impls_of(crate, 'arrival::ArrivalBound', 'number_arrivals'):
        if b.mac and 'auto_impl' in b.mac:
            continue
        t = Evaluator(crate).eval_body(b)
        t0 = T.substitute(t, {T.unroot(delta): T.const(0)})
        key = f'ZERO:{b.path}'
        n += 1
        where = loc(b.raw)
        if T.as_lin(t0) == T.const(0):
            rep.ok('ZERO', key, where, 'number_arrivals(0) evaluates to the constant 0 (guard on delta / literal)', fn=b.path)
            continue
        # sums / delegations: 0 iff every delegate is 0 at 0
        calls = [x for x in T.subterms(t0) if is_tag(x, 'call')]
        if calls and all(c[1] == NA and T.as_lin(c[2][1]) == T.const(0) for c in calls if c[1] == NA) and _only_delegates(t0):
            rep.ok('ZERO', key, where, f'number_arrivals(0) = {T.show(t0)[:140]}: zero because every delegate is zero at 0', fn=b.path)
        elif 'poisson' in b.path:
            rep.ok('ZERO', key, where, 'floating-point model (C15, not decided); the delta = 0 guard is present' if T.as_lin(t0) == T.const(0) else 'floating-point model: not decided', nontrivial=False, fn=b.path)
        elif _div_at_zero(t0):
            rep.ok('ZERO', key, where, f'number_arrivals(0) = {T.show(t0)[:120]}: ceil(0 / T) = 0', fn=b.path)
        else:
            rep.bad('ZERO', key, where, f'number_arrivals(0) = {T.show(t0)[:200]}', '0', fn=b.path,
                    direction='can be positive: e.g. jitter added before the division gives ceil(J/T) > 0 in an empty window')
    return n


def _only_delegates(t):
    """a linear form (or sum-iterator) over number_arrivals calls only"""
    t = T.as_lin(t)
    for r, c in t[2]:
        if is_tag(r, 'call') and r[1] == NA:
            continue
        if is_tag(r, 'sum') and is_tag(r[1], 'map'):
            body = T.as_lin(r[1][2][2])
            if all(is_tag(x, 'call') and x[1] == NA for x, _ in body[2]) and body[1] == 0:
                continue
        return False
    return t[1] == 0


def _div_at_zero(t):
    """(0 / T) + ind[0 % T >= 1]: both vanish"""
    t = T.as_lin(t)
    if t[1] != 0:
        return False
    for r, c in t[2]:
        if is_tag(r, 'div') and T.as_lin(r[1]) == T.const(0):
            continue
        if is_tag(r, 'ind'):
            inner = r[1]
            if is_tag(inner, 'le0'):
                rs = T.lin_roots(inner[1])
                if inner[1][1] == 1 and all(is_tag(x, 'rem') and T.as_lin(x[1]) == T.const(0) and cc == -1 for x, cc in rs.items()):
                    continue
        return False
    return True


def check_jitter(rep, crate):
    """clone_with_jitter adds the new jitter to the existing one; number_arrivals widens the window by the jitter"""
    n = 0
    added = P(1)
    table = {
        '<arrival::sporadic::Sporadic as arrival::ArrivalBound>::clone_with_jitter':
            T.struct('arrival::sporadic::Sporadic', {'jitter': T.add(P(0, 'jitter'), added), 'min_inter_arrival': P(0, 'min_inter_arrival')}),
        '<arrival::propagated::Propagated<T> as arrival::ArrivalBound>::clone_with_jitter':
            T.struct('arrival::propagated::Propagated', {'input_event_model': P(0, 'input_event_model'),
                                                         'response_time_jitter': T.add(P(0, 'response_time_jitter'), added)}),
        '<arrival::periodic::Periodic as arrival::ArrivalBound>::clone_with_jitter':
            T.struct('arrival::sporadic::Sporadic', {'jitter': added, 'min_inter_arrival': P(0, 'period')}),
        '<arrival::never::Never as arrival::ArrivalBound>::clone_with_jitter': T.struct('arrival::never::Never', {}),
    }
    fresh = T.struct('arrival::propagated::Propagated', {'input_event_model': P(0), 'response_time_jitter': added})
    for b in impls_of(crate, 'arrival::ArrivalBound', 'clone_with_jitter'):
        if b.mac and 'auto_impl' in b.mac:
            continue
        t = T.unroot(Evaluator(crate).eval_body(b))
        key = f'JIT:{b.path}'
        where = loc(b.raw)
        n += 1
        if b.path in table:
            want = table[b.path]
            if T.same(t, want):
                rep.ok('JIT', key, where, f'result is {T.show(t)[:160]} (existing jitter + added jitter)', fn=b.path)
            else:
                rep.bad('JIT', key, where, f'result is {T.show(t)[:200]}', T.show(want)[:200], fn=b.path,
                        direction='jitter is not accumulated', why='adding jitter a and then b must equal adding a + b')
        elif T.same(t, fresh):
            rep.ok('JIT', key, where, 'wraps the model in a fresh Propagated with exactly the added jitter (Propagated accumulates on further calls)', fn=b.path)
        elif _delegating_jitter(t, added):
            rep.ok('JIT', key, where, f'passes the same added jitter to every component: {T.show(t)[:140]}', fn=b.path)
        else:
            rep.bad('JIT', key, where, f'result is {T.show(t)[:200]}', 'existing + added jitter, a fresh Propagated(self, added), or component-wise delegation', fn=b.path)
    # the window of a jittered model is widened by the jitter (coefficient +1)
    for path, jf in (('<arrival::sporadic::Sporadic as arrival::ArrivalBound>::number_arrivals', P(0, 'jitter')),
                     ('<arrival::propagated::Propagated<T> as arrival::ArrivalBound>::number_arrivals', P(0, 'response_time_jitter'))):
        b = crate.body(path)
        if b is None:
            rep.bad('ANCHOR', f'JIT-WINDOW:{path}', path, 'function not found', fn=path)
            continue
        t = Evaluator(crate).eval_body(b)
        n += 1
        win = T.add(P(1), jf)
        if any(T.is_lin(x) and x == win for x in T.subterms(t)):
            rep.ok('JIT-WINDOW', f'JIT-WINDOW:{path}', loc(b.raw), f'the count is taken over the window {T.show(win)}', fn=path)
        else:
            rep.bad('JIT-WINDOW', f'JIT-WINDOW:{path}', loc(b.raw), f'number_arrivals = {T.show(t)[:200]}', f'a count over {T.show(win)}', fn=path,
                    direction='the jitter does not widen the window: events delayed by up to the jitter are undercounted')
    return n


def _delegating_jitter(t, added):
    calls = [x for x in T.subterms(t) if is_tag(x, 'call') and x[1] == CWJ]
    return bool(calls) and all(T.as_lin(c[2][1]) == T.as_lin(added) for c in calls)


def check_deleg(rep, crate, which):
    """composites delegate each method to the same method of every component exactly once, with the right combiner"""
    n = 0
    if which == 'arrival':
        targets = [(b, 'sum') for b in impls_of(crate, 'arrival::ArrivalBound', 'number_arrivals')
                   if any(s in b.path for s in ('Vec<T>', '[T]', 'SumOf'))]
        method = NA
    else:
        targets = []
        for m, comb in (('service_needed', 'sum'), ('least_wcet_in_interval', 'min'),
                        ('service_needed_by_n_jobs_per_component', 'sum')):
            tr = 'demand::AggregateRequestBound' if 'per_component' in m else 'demand::RequestBound'
            for b in impls_of(crate, tr, m):
                if 'Aggregate' in b.path or 'Slice' in b.path:
                    targets.append((b, comb))
        method = None
    for b, comb in targets:
        if b.mac and 'auto_impl' in b.mac:
            continue
        t = T.unroot(Evaluator(crate).eval_body(b))
        key = f'DELEG:{b.path}'
        where = loc(b.raw)
        n += 1
        name = b.raw.get('assoc_name')
        callee = method or ('demand::RequestBound::' + {'service_needed_by_n_jobs_per_component': 'service_needed_by_n_jobs'}.get(name, name))
        ok, why = _deleg_form(t, callee, comb, len(b.params))
        if ok:
            rep.ok('DELEG', key, where, f'{T.show(t)[:170]}: {why}', fn=b.path)
        else:
            rep.bad('DELEG', key, where, f'{T.show(t)[:220]}', f'{comb} over every component of {callee.split("::")[-1]} with the same arguments', fn=b.path,
                    direction=why)
    return n


def _deleg_form(t, callee, comb, nparams):
    args_want = tuple(P(i) for i in range(1, nparams))
    if comb == 'sum' and is_tag(t, 'sum'):
        it = t[1]
    elif comb == 'min' and is_tag(t, 'optor') and is_tag(T.unroot(t[1]), 'minof') and T.as_lin(t[2]) == T.const(0):
        it = T.unroot(t[1])[1]
    elif comb == 'sum' and T.is_lin(T.as_lin(t)) and not is_tag(t, 'sum'):
        # explicit sum of two components (SumOf)
        l = T.as_lin(t)
        rs = l[2]
        if l[1] == 0 and len(rs) == 2 and all(c == 1 and is_tag(r, 'call') and r[1] == callee and tuple(r[2][1:]) == args_want for r, c in rs) \
                and {r[2][0] for r, _ in rs} == {('f', P(0), '#0'), ('f', P(0), '#1')}:
            return True, 'sum of both components, same argument'
        return False, 'not the sum of the two components'
    else:
        return False, f'combiner is not {comb}'
    if not (is_tag(it, 'map') and is_tag(it[1], 'elems') and is_tag(it[2], 'lam')):
        return False, 'an adaptor other than iter().map() sits between the components and the combiner (components can be dropped)'
    body = T.unroot(it[2][2])
    x = T.bv(it[2][1])
    if not (is_tag(body, 'call') and body[1] == callee and body[2][0] == x and tuple(body[2][1:]) == args_want):
        return False, f'components are mapped through {T.show(body)[:100]}'
    return True, f'{comb} over every component, same method, arguments passed through'


# ---------------------------------------------------------------- CACHE (C13, C14): RefCell discipline

BORROWS = ('std::cell::RefCell::<T>::borrow', 'std::cell::RefCell::<T>::borrow_mut')


def may_borrow_set(crate):
    """functions that may (transitively) borrow a RefCell; trait-method calls on non-self receivers count as `may`"""
    direct = set()
    calls = {}
    for b in crate.body_list:
        cs = set()
        for n in b.walk():
            if n.get('k') in ('Call', 'MethodCall'):
                c = n.get('callee')
                if c in BORROWS:
                    direct.add(b.path)
                elif c:
                    cs.add(c)
        calls[b.path] = cs
    may = set(direct)
    changed = True
    while changed:
        changed = False
        for p, cs in calls.items():
            if p not in may and cs & may:
                may.add(p)
                changed = True
    return may, calls


def check_cache(rep, crate, file_filter, prop):
    may, calls = may_borrow_set(crate)
    # trait methods whose some implementation may borrow
    trait_may = set()
    for b in crate.body_list:
        if b.path in may and b.raw.get('impl_trait') and b.raw.get('assoc_name'):
            trait_may.add(b.raw['impl_trait'] + '::' + b.raw['assoc_name'])
    n = 0
    for b in crate.body_list:
        if not (b.file or '').endswith(file_filter):
            continue
        for node in b.walk():
            if node.get('k') != 'MethodCall' or node.get('callee') not in BORROWS:
                continue
            n += 1
            where = loc(node)
            mutable = node['callee'].endswith('borrow_mut')
            cell = _place(node['recv'])
            key = f"CACHE-SCOPE:{b.path}:{cell}:{'mut' if mutable else 'shared'}"
            scope, guard_id, kind = _guard_scope(b, node)
            # 1. no call inside the scope may borrow the same cell again
            offenders = []
            for x in scope:
                for y in walk(x):
                    if y is node:
                        continue
                    if y.get('k') in ('Call', 'MethodCall') and y.get('callee'):
                        c = y['callee']
                        if c in BORROWS and _place(y.get('recv', {})) == cell:
                            offenders.append((loc(y), 're-borrows ' + cell))
                        elif c in may or c in trait_may:
                            impl_path = resolve_impl(crate, y)
                            if impl_path is not None and impl_path not in may:
                                continue    # statically dispatched to an implementation that never borrows
                            # calls *through the guard* reach the guarded value's own type, not the cell holder
                            if guard_id is not None and _rooted_at(y, guard_id):
                                inner_ty = y.get('recv_ty', '')
                                if c in may:
                                    offenders.append((loc(y), f'{c} may borrow a RefCell'))
                                continue
                            offenders.append((loc(y), f'{c} may borrow a RefCell while the guard is alive'))
            if offenders:
                rep.bad('CACHE-SCOPE', key, where, f'{kind} guard of {cell} is alive across: ' + '; '.join(f'{w} {r}' for w, r in offenders)[:400],
                        'no call that may borrow the same cell inside the guard\'s scope', fn=b.path,
                        direction='BorrowMutError / BorrowError at run time for some query order',
                        why='RefCell is !Sync and the type is !Send, so re-entrancy is the only way to a borrow failure')
            else:
                rep.ok('CACHE-SCOPE', key, where, f'{kind} guard of {cell}: no call inside its scope may borrow a RefCell again', fn=b.path)
            # 2. the guard does not escape
            esc = _guard_escapes(b, node, guard_id)
            k2 = f"CACHE-ESCAPE:{b.path}:{cell}:{'mut' if mutable else 'shared'}"
            if esc:
                rep.bad('CACHE-ESCAPE', k2, where, f'guard of {cell} escapes: {esc}', 'guards are dropped before the function returns', fn=b.path,
                        direction='a later query finds the cell still borrowed')
            else:
                rep.ok('CACHE-ESCAPE', k2, where, f'guard of {cell} is neither returned, stored, nor captured by a closure', fn=b.path)
    return n


def resolve_impl(crate, call):
    """body path of the implementation a trait-method call is statically dispatched to (by receiver type), if known"""
    tr = call.get('callee_trait')
    if not tr or call.get('k') != 'MethodCall':
        return None
    ty = call.get('recv_ty', '')
    while ty.startswith('&'):
        ty = ty[1:].strip()
        if ty.startswith('mut '):
            ty = ty[4:]
    name = call.get('name')
    for imp in crate.impls:
        import re as _re
        if imp.get('trait') == tr and _re.sub(r'/#\d+', '', imp.get('self_ty', '')).replace('&', '').strip() == ty:
            for it in imp['items']:
                if it['name'] == name:
                    return it['path']
            return tr + '::' + name + '#default'
    return None


def _place(e):
    parts = []
    while isinstance(e, dict):
        k = e.get('k')
        if k == 'Path':
            parts.append(e.get('name', '?'))
            break
        if k == 'Field':
            parts.append(e['name'])
            e = e['e']
        elif k in ('DropTemps', 'Use', 'AddrOf') or (k == 'Unary' and e.get('op') == 'Deref'):
            e = e['e']
        elif k == 'MethodCall':
            e = e['recv']
        else:
            parts.append('?')
            break
    return '.'.join(reversed(parts))


def _guard_scope(b, node):
    """-> (list of nodes in which the guard is alive, binding id of the guard or None, 'let-bound'|'temporary')"""
    par = b.parent.get(id(node))
    while par is not None and par.get('k') in ('DropTemps', 'Use', 'AddrOf'):
        par = b.parent.get(id(par))
    if par is not None and par.get('k') == 'Let' and 'src' in par and par.get('init') is not None and _strip(par['init']) is node:
        binds = pat_bindings(par['pat'])
        gid = binds[0]['id'] if binds else None
        blk = b.parent.get(id(par))
        rest = []
        if blk is not None and blk.get('k') == 'Block':
            seen = False
            for st in blk['stmts']:
                if seen:
                    rest.append(st)
                if st is par:
                    seen = True
            if blk.get('expr') is not None:
                rest.append(blk['expr'])
        return rest, gid, 'let-bound'
    # temporary: alive until the end of the enclosing statement
    cur = node
    while True:
        p = b.parent.get(id(cur))
        if p is None or p.get('k') == 'Block' or (p.get('k') in ('Let', 'Semi', 'Expr') and 'ty' not in p):
            break
        cur = p
    return [cur], None, 'temporary'


def _strip(e):
    while isinstance(e, dict) and e.get('k') in ('DropTemps', 'Use', 'AddrOf'):
        e = e['e']
    return e


def _rooted_at(call, gid):
    e = call.get('recv') if call.get('k') == 'MethodCall' else (call['args'][0] if call.get('args') else None)
    while isinstance(e, dict):
        k = e.get('k')
        if k == 'Path':
            return e.get('res') == 'Local' and e.get('id') == gid
        if k in ('Field', 'Index', 'DropTemps', 'Use', 'AddrOf') or (k == 'Unary' and e.get('op') == 'Deref'):
            e = e['e']
        elif k == 'MethodCall':
            e = e['recv']
        else:
            return False
    return False


def _guard_escapes(b, node, gid):
    if gid is None:
        # a temporary guard escapes only if the borrow expression itself is the function's value
        par = b.parent.get(id(node))
        if par is not None and par.get('k') in ('Ret',):
            return 'returned'
        return None
    for n in b.walk():
        if n.get('k') == 'Path' and n.get('res') == 'Local' and n.get('id') == gid:
            # inside a closure -> captured
            for a in b.ancestors(n):
                if a.get('k') == 'Closure':
                    # closures that are created after the guard and are part of the return value
                    return f'captured by a closure at {loc(a)}'
            par = b.parent.get(id(n))
            while par is not None and par.get('k') in ('DropTemps', 'Use'):
                par = b.parent.get(id(par))
            if par is None:
                continue
            k = par.get('k')
            if k in ('MethodCall',) and _strip(par['recv']) is n:
                continue
            if k in ('Field', 'Index', 'AddrOf') or (k == 'Unary' and par.get('op') == 'Deref'):
                continue
            if k == 'Struct':
                return f'stored in a struct literal at {loc(par)}'
            if k in ('Ret',):
                return 'returned'
            if k == 'Call':
                return f'passed to {par.get("callee")} at {loc(par)}'
            if k == 'Block' and par.get('expr') is n and id(par) not in b.parent:
                return 'is the value of the function body'
    return None


def _only_reached_from(crate, b, allowed_fns, depth=0):
    """-> the sorted allowed routines from which alone the non-public function b is called (transitively through other such
    helpers), or None"""
    raw = b.raw
    if depth > 3 or not str(raw.get('vis', '')).startswith('Restricted') or raw.get('impl_trait') or raw.get('kind') not in ('Fn', 'AssocFn'):
        return None
    callers = set()
    for c in crate.body_list:
        if c is b:
            continue
        for n in c.walk():
            if (n.get('k') in ('Call', 'MethodCall') and n.get('callee') == b.path) or \
                    (n.get('k') == 'Path' and n.get('defkind') in ('Fn', 'AssocFn') and n.get('def') == b.path):
                callers.add(c.path)
    if not callers:
        return None
    hosts = set()
    for cp in callers:
        short = cp.split('::')[-1]
        if short in allowed_fns and cp.rsplit('::', 1)[0] == b.path.rsplit('::', 1)[0]:
            hosts.add(short)
            continue
        cb = crate.body(cp)
        sub = _only_reached_from(crate, cb, allowed_fns, depth + 1) if cb is not None else None
        if sub is None:
            return None
        hosts |= set(sub)
    return sorted(hosts)


def check_append_only(rep, crate, field, file_filter, allowed_fns):
    """who-may-write: after construction the cached vector is only ever extended by push, and only in the extrapolation routines"""
    n = 0
    for b in crate.body_list:
        if not (b.file or '').endswith(file_filter):
            continue
        for node in b.walk():
            k = node.get('k')
            target = None
            what = None
            if k in ('Assign', 'AssignOp'):
                pl = _place(node['l'])
                if ('.' + field) in ('.' + pl) and pl.startswith('self'):
                    target, what = pl, 'assignment'
            elif k == 'MethodCall':
                adj = node['recv'].get('adj') or []
                if (any('Mut' in a and 'Borrow' in a for a in adj) or node.get('recv_ty', '').startswith('&mut')) \
                        and _strip(node['recv']).get('k') != 'MethodCall':     # a temporary (e.g. an iterator over the field) is not the field
                    pl = _place(node['recv'])
                    if pl.endswith('.' + field) and pl.startswith('self'):
                        target, what = pl, node['name']
            if target is None:
                continue
            n += 1
            fn_short = b.path.split('::')[-1]
            host = _only_reached_from(crate, b, allowed_fns) if fn_short not in allowed_fns else None
            # a private helper that only the extrapolation routines call is part of them: keyed by the routine(s), so moving
            # the push into such a helper (or back) changes neither key nor verdict
            key = f'CACHE-APPEND:{b.path}:{what}' if host is None else f'CACHE-APPEND:{b.path.rsplit("::", 1)[0]}::{host[0]}:{what}'
            if what == 'push' and (fn_short in allowed_fns or host is not None):
                rep.ok('CACHE-APPEND', key, loc(node), f'{target} is extended by push in {fn_short}' +
                       (f' (private, reached only from {", ".join(host)})' if host else ''), fn=b.path)
            else:
                rep.bad('CACHE-APPEND', key, loc(node), f'{target} is modified by `{what}` in {fn_short}', f'only push, only in {sorted(allowed_fns)}', fn=b.path,
                        direction='values inside the original prefix can change; answers depend on the query history')
    return n


def check_extrapolate_before_lookup(rep, crate, path, ext_callee, lookup_callee, key_name):
    """the lookup is preceded by an extension of the cache to a horizon strictly beyond the query"""
    b = crate.body(path)
    if b is None:
        rep.bad('ANCHOR', f'CACHE-ORDER:{key_name}', path, 'function not found', fn=path)
        return 0
    ev = Evaluator(crate)
    ev.eval_entry(b)
    evs = [e for e in ev.events if e['depth'] == 0 and e['kind'] in ('mutcall', 'call')]
    where = loc(b.raw)
    ext = [(i, e) for i, e in enumerate(evs) if e['callee'] == ext_callee]
    look = [(i, e) for i, e in enumerate(evs) if e['callee'] == lookup_callee]
    key = f'CACHE-ORDER:{key_name}'
    if not look:
        # the lookup is a trait-method call recorded in the value term only; find it there
        look = []
    q = P(1)
    if not ext:
        rep.bad('CACHE-ORDER', key, where, 'the cache is not extended before the lookup', f'{ext_callee.split("::")[-1]}(query + k), k >= 1, first', fn=path,
                direction='answers depend on how far earlier queries extended the cache')
        return 1
    h = T.as_lin(ext[0][1]['args'][1])
    d = T.sub(h, q)
    if T.is_const(d) and d[1] >= 1:
        rep.ok('CACHE-ORDER', key, where, f'the cache is extended to {T.show(h)} (query + {d[1]}) before the lookup', fn=path)
    else:
        rep.bad('CACHE-ORDER', key, where, f'the cache is extended only to {T.show(h)}', 'query + k with k >= 1', fn=path,
                direction='a cache that happens to end exactly at the query answers through the whole-prefix branch, a longer one through the lookup branch: '
                          'the answer depends on earlier queries')
    return 1


# ---------------------------------------------------------------- TRACE (C12, C14)

def check_trace(rep, crate, path, window_push_first):
    """sliding-window scan: anchored at the newest element (rev), covers the whole window, eviction bounded by the prefix length"""
    b = crate.body(path)
    if b is None:
        rep.bad('ANCHOR', f'TRACE:{path}', path, 'function not found', fn=path)
        return 0
    ev = Evaluator(crate)
    ev.eval_entry(b)
    where = loc(b.raw)
    loops = [e for e in ev.events if e['kind'] == 'loop' and e['depth'] == 0]
    outer = [l for l in loops if not l['loops']]
    inner = [l for l in loops if len(l['loops']) == 1]
    key = f'TRACE:{path}'
    if len(outer) != 1 or len(inner) != 1:
        rep.bad('TRACE', key, where, f'{len(outer)} outer / {len(inner)} inner loops', 'one loop over the trace with one scan of the window inside', fn=path)
        return 1
    it = T.unroot(inner[0]['iter'])
    ok_shape = is_tag(it, 'enumerate') and is_tag(it[1], 'rev') and is_tag(it[1][1], 'elems')
    if ok_shape:
        rep.ok('TRACE', key + ':scan', where, f'the window is scanned completely, newest element first: {S.canon_text(T.show(it))}', fn=path)
    else:
        rep.bad('TRACE', key + ':scan', where, f'window scan is {S.canon_text(T.show(it))[:200]}', 'enumerate(rev(window)) -- anchored at the newest element, no take/skip', fn=path,
                direction='runs that end in the last positions of the trace (or whole parts of the window) are never observed')
    # order of push / scan / pop inside the outer loop
    onid = outer[0]['node'].get('_nid')
    seq = []
    for e in ev.events:
        if e['depth'] != 0:
            continue
        if e['kind'] == 'mutcall' and e['loops'] == (onid,):
            seq.append(e['callee'].split('::')[-1])
        if e['kind'] == 'loop' and e['loops'] == (onid,):
            seq.append('scan')
    want = ['push_back', 'pop_front', 'scan'] if window_push_first else ['scan', 'push_back', 'pop_front']
    if seq == want:
        rep.ok('TRACE', key + ':order', where, f'per trace element: {" -> ".join(seq)}', fn=path)
    else:
        rep.bad('TRACE', key + ':order', where, f'per trace element: {" -> ".join(seq)}', ' -> '.join(want), fn=path,
                direction='the newest element is paired with the wrong window')
    # eviction guard: pop only when the window exceeds the prefix length
    pops = [e for e in ev.events if e['kind'] == 'mutcall' and e['callee'].endswith('pop_front') and e['depth'] == 0]
    n_param = P(1)
    good = False
    for e in pops:
        for c in e['pc']:
            if is_tag(c, 'le0'):
                rs = T.lin_roots(c[1])
                lens = [r for r in rs if is_tag(r, 'len')]
                if rs.get(T.unroot(n_param)) == 1 and len(lens) == 1 and rs[lens[0]] == -1 and c[1][1] == 1:
                    good = True
    if good:
        rep.ok('TRACE', key + ':evict', where, 'the oldest element is evicted exactly when the window holds more than the prefix length', fn=path)
    else:
        rep.bad('TRACE', key + ':evict', where, 'eviction condition is not `window.len() > prefix length`: ' +
                '; '.join(' && '.join(S.canon_text(T.show(c)) for c in e['pc']) for e in pops)[:300], 'len(window) > n', fn=path)
    return 1
