"""Property -> rules."""

from . import rules_rta
from .rta_model import ANALYSES

FP = [p for p in ANALYSES if p.startswith('fixed_priority::')]
EDF = [p for p in ANALYSES if p.startswith('edf::')]
FIFO = [p for p in ANALYSES if p.startswith('fifo::')]

RTA_RULES = {
    'SPEC-BW': 'the closure that reaches the workload argument of the search bounding the offsets, evaluated '
               'symbolically, compared with the busy-window equation of the cited analysis',
    'SPEC-OFF': 'the closure that reaches the workload argument of the per-offset search, compared with the '
                'per-offset equation (own demand on the closed interval [0,A], blocking, interference at the '
                'fixed-point variable, run-to-completion correction)',
    'SPEC-RES': 'the value each offset is mapped to, compared with x* - A + remaining cost',
    'SPACE': 'the iterator that reaches max_response_time/max: components, shift of each step, bound, stages',
    'PLUMB': 'supply argument of every search',
    'LIM': 'limit argument of every search is the limit parameter (linear-form difference 0)',
    'ERR': 'every search result is consumed by `?`',
    'COMBINE': 'per-offset results are combined by max_response_time (FP/EDF) or max with default 0 (FIFO)',
    'DOM': 'every use of the offset A inside the per-offset equation is f(A+u) for a component steps(f)-u of '
           'the search space, or a declared monotone exemption',
}

COMMON_ASSUMPTIONS = [
    'rustc front end (name resolution, type check, HIR lowering) and the rta-facts serialiser are trusted',
    'linear forms ignore u64 wrap-around; all roots are non-negative integers',
    'trait implementations supplied by users satisfy the monotonicity axioms in sa/compare.py',
    'the equation tables in sa/rta_model.py transcribe aRTA Thm 31 as instantiated in Prosa; that these equations '
    'bound real schedules is the papers\' theorem and is not decided here',
]


def rta_prop(paths, mode, prop, floor_instances, what):
    def run(ctx, rep):
        crate = ctx.crate('dbg')
        for rid, text in RTA_RULES.items():
            rep.rule(rid, text)
        for a in COMMON_ASSUMPTIONS:
            rep.assume(a)
        models = 0
        for p in paths:
            m = rules_rta.check_analysis(rep, crate, p, mode, prop)
            if m is not None:
                models += 1
        rep.floor('analysis entry points', models, len(paths))
        rep.floor('rule instances', len(rep.instances), floor_instances)
        return (f'Static analysis of the type-checked HIR of /repo (re-extracted by this run). Decides named '
                f'structural clauses that are necessary for {prop} -- {what} -- for all inputs, because the '
                f'clauses do not mention inputs. Mode: {rules_rta.MODE_TEXT[mode]}. It does NOT decide the '
                f'behavioural property itself (that the equations bound every schedule is the cited theorem).')
    return run


PROPS = {
    'C01': rta_prop(FP, 'safe', 'C01', 40,
                    'the four FP analyses implement BW, OFF_A, the run-to-completion bookkeeping, the result '
                    'extraction and the search space of the cited analysis, with no deviation in the unsafe direction'),
    'C02': rta_prop(EDF, 'safe', 'C02', 40,
                    'the four EDF analyses implement BW, OFF_A (deadline-shifted interference window, '
                    'offset-dependent blocking), the result extraction and the three-component search space, '
                    'with no deviation in the unsafe direction'),
    'C03': rta_prop(FIFO, 'safe', 'C03', 8,
                    'the FIFO analysis implements L = lfp total_rbf, R(A) = total_rbf(A+1) - A, search space '
                    'steps-1 below L, maximum with default 0'),
    'C06': rta_prop(FP + EDF + FIFO, 'exact', 'C06', 90,
                    'all nine analyses agree *exactly* with their defining equations, pruning to steps is '
                    'justified for every dependence on the offset, errors and the limit are only passed through'),
    'C18': rta_prop([FP[0], FP[1]] + FIFO, 'tight', 'C18', 20,
                    'FP-P, FP-NP and FIFO contain no term, shift or offset in excess of the equations '
                    '(pessimistic direction)'),
}
