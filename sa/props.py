"""Property -> rules."""

from . import rules_rta, rules_fp, rules_sib, rules_ros2, rules_total, controls, rules_models, witness, rules_mono, rules_sem
from .rta_model import ANALYSES

FP = [p for p in ANALYSES if p.startswith('fixed_priority::')]
EDF = [p for p in ANALYSES if p.startswith('edf::')]
FIFO = [p for p in ANALYSES if p.startswith('fifo::')]

RTA_RULES = {
    'SPEC-BW': 'the closure that reaches the workload argument of the search bounding the offsets, evaluated '
               'symbolically, compared with the busy-window equation of the cited analysis',
    'SPEC-OFF': 'the closure that reaches the workload argument of the per-offset search, compared with the '
                'per-offset equation (own demand on the closed interval [0,A], blocking, interference at the '
                'fixed-point variable, run-to-completion correction)',
    'SPEC-RES': 'the value each offset is mapped to, compared with x* - A + remaining cost',
    'SPACE': 'the iterator that reaches max_response_time/max: components, shift of each step, bound, stages',
    'PLUMB': 'supply argument of every search',
    'LIM': 'limit argument of every search is the limit parameter (linear-form difference 0)',
    'ERR': 'every search result is consumed by `?`',
    'COMBINE': 'per-offset results are combined by max_response_time (FP/EDF) or max with default 0 (FIFO)',
    'DOM': 'every use of the offset A inside the per-offset equation is f(A+u) for a component steps(f)-u of '
           'the search space, or a declared monotone exemption',
}

COMMON_ASSUMPTIONS = [
    'rustc front end (name resolution, type check, HIR lowering) and the rta-facts serialiser are trusted',
    'linear forms ignore u64 wrap-around; all roots are non-negative integers',
    'trait implementations supplied by users satisfy the monotonicity axioms in sa/compare.py',
    'the equation tables in sa/rta_model.py transcribe aRTA Thm 31 as instantiated in Prosa; that these equations '
    'bound real schedules is the papers\' theorem and is not decided here',
]


def rta_prop(paths, mode, prop, floor_instances, what):
    def run(ctx, rep):
        crate = ctx.crate('dbg')
        for rid, text in RTA_RULES.items():
            rep.rule(rid, text)
        for a in COMMON_ASSUMPTIONS:
            rep.assume(a)
        models = 0
        for p in paths:
            m = rules_rta.check_analysis(rep, crate, p, mode, prop)
            if m is not None:
                models += 1
        if mode == 'exact':
            from . import rules_mono
            rep.rule('LIM-NI', 'non-interference: the limit parameter reaches only the divergence-limit argument of search*')
            rules_mono.check_all_limits(rep, crate, ['fixed_priority::', 'edf::', 'fifo::'])
            rep.rule('FP-*', 'the fixed-point kernel every analysis iterates with (see C08): start value, inclusive guard, Ok payload/condition, strict progress, Err payload')
            rules_fp.check_search_with_offset(rep, crate)
            rules_fp.check_max_response_time(rep, crate)
        rep.floor('analysis entry points', models, len(paths))
        rep.floor('rule instances', len(rep.instances), floor_instances)
        return (f'Static analysis of the type-checked HIR of /repo (re-extracted by this run). Decides named '
                f'structural clauses that are necessary for {prop} -- {what} -- for all inputs, because the '
                f'clauses do not mention inputs. Mode: {rules_rta.MODE_TEXT[mode]}. It does NOT decide the '
                f'behavioural property itself (that the equations bound every schedule is the cited theorem).')
    return run


def c08(ctx, rep):
    dbg = ctx.crate('dbg')
    rel = ctx.crate('rel')
    for a in COMMON_ASSUMPTIONS[:2]:
        rep.assume(a)
    rep.assume('Iterator::max_by keeps the accumulated (left) item iff the comparator returns Greater (std semantics)')
    rep.assume('leastness itself additionally needs a monotone workload and a supply that grows by at most one per '
               'time unit; those are numeric facts and are not decided here')
    rep.rule('FP-INIT', 'first assumed value of the iteration is the constant 1')
    rep.rule('FP-GUARD', 'the loop is left exactly when assumed > limit (canonical inequality)')
    rep.rule('FP-OK', 'the only return inside the loop is Ok(service_time(workload(assumed)) - offset) under bound <= assumed')
    rep.rule('FP-STEP', 'the only assignment to the iteration variable is := bound on the complementary branch')
    rep.rule('LIM-NI', 'non-interference: divergence_limit does not reach any Ok payload')
    rep.rule('FP-ERR', 'fall-through value is Err(DivergenceLimitExceeded{offset, limit}) built from the parameters')
    rep.rule('FP-WRAP', 'search == search_with_offset(supply, 0, limit, &workload) in the debug and the release configuration')
    rep.rule('ERR-ORIGIN', 'who-may-construct: SearchFailure values are built only inside the fixed-point kernel')
    rep.rule('FP-MAX', 'max_response_time: selection table of the pairwise combinator (max_by comparator or reduce function) over (left Ok?, right Ok?), default Ok(0), no adaptor, unwraps dominated by an Ok test')
    rep.rule('FP-SIB', 'the debug-only linear scan agrees on range inclusivity, zero-demand result and Err payload')
    rep.rule('ST-INIT/ST-RET/ST-STEP', 'default service_time: starts at demand, returns under supply >= demand, advances by demand - supply')
    rules_fp.check_search_with_offset(rep, dbg)
    rules_fp.check_search(rep, dbg, 'dbg')
    rules_fp.check_search(rep, rel, 'rel')
    rules_fp.check_err_origin(rep, dbg, 'dbg')
    rules_fp.check_err_origin(rep, rel, 'rel')
    rules_fp.check_max_response_time(rep, dbg)
    rules_fp.check_brute_sibling(rep, dbg)
    rules_fp.check_default_service_time(rep, dbg)
    # 21 today; the two FP-MAX:unwrap instances exist only while the comparator reads the payloads through unwrap()
    rep.floor('rule instances', len(rep.instances), 19)
    return ('Static dataflow analysis of fixed_point.rs and the default SupplyBound::service_time: each loop is '
            'summarised by one symbolic iteration (loop-carried variable = root, every return/assignment/break with its '
            'path condition as canonical linear inequalities). Decides ten structural clauses necessary for C08 (start '
            'value, inclusive guard, Ok payload and condition, strict progress, limit non-interference, Err payload and '
            'origin, search wrapper in both build configurations, comparator of max_response_time, sibling agreement). '
            'Does NOT decide leastness for a given numeric workload.')


def c19(ctx, rep):
    crate = ctx.crate('dbg')
    for a in COMMON_ASSUMPTIONS[:3]:
        rep.assume(a)
    rep.rule('SIB', 'equations recovered from two sibling entry points are identical canonical terms after substituting '
                    'the special-case parameter values named by the property (LP last:=1,B:=0 = P; LP last:=C = NP; '
                    'LP last:=1 = FNP; EDF likewise with all segments 1 resp. = WCET)')
    rep.rule('PARAM', 'every ROS 2 entry point takes its supply as a type parameter bounded by SupplyBound only and uses '
                      'the value only through provided_service/service_time or as the supply argument of search*')
    n = rules_sib.check_reductions(rep, crate)
    rep.floor('analysis records', n, 8)
    k = rules_sib.check_supply_parametric(rep, crate)
    rep.floor('ROS 2 entry points', k, 7)
    rep.rule('SUP-WF', 'the constructor asserts of each reservation model yield the well-formedness assumptions used below')
    rep.rule('SUP-SIB', 'Periodic[budget := period] = Dedicated and Constrained[budget := deadline := period] = Dedicated (and '
                        'Constrained[deadline := period] = Periodic) for provided_service and service_time, proved for all arguments by '
                        'linear entailment; with PARAM every ROS 2 analysis therefore returns the same result for the three supplies')
    q = rules_sem.check_supply_laws(rep, crate, sib_only=True)
    rep.floor('supply reductions proved', q, 8)
    rep.floor('rule instances', len(rep.instances), 36)
    rep.assume('the remaining numeric agreements named by the property (largest NP-EDF bound = FIFO bound; event source = FIFO) '
               'are NOT decided: they are facts about values, not about code shape')
    return ('Static sibling comparison: the busy-window equation, per-offset equation, result extraction and search '
            'space of each FP/EDF entry point are recovered as canonical terms; each reduction named by C19 is decided as '
            'a term identity under substitution, for all inputs. For the ROS 2 analyses supply-parametricity is decided '
            'from the type-checked signatures and the uses of the supply value, and the three supplies the property '
            'names are proved to be the same pair of functions (linear entailment over their guarded cases), so the ROS 2 '
            'analyses agree on them. Does NOT decide the remaining numeric agreements (NP-EDF max = FIFO, event source = FIFO).')


ROS2_RULES = {
    'SPEC-BW': 'busy-window right-hand side recovered by flow, compared with Lemma 6 of ECRTS\'19',
    'SPEC-OFF': 'per-offset right-hand side compared with Lemmas 1, 3, 4/5, 8 (own demand at A+1, interference window A+1+(r -. w))',
    'SPEC-RHS': 'rhs of the S* / max-offset searches compared with Defs 1,2,3,5 and Lemma 18 of RTSS\'21',
    'SPEC-RES': 'result expression compared with Thm 2 / Thm 3 (service_time(sbf(S*) -. 1 + marginal cost), -t_a only for singleton subchains)',
    'COUPLE': 'the same offset reaches search_with_offset and the right-hand side',
    'SPACE': 'search space: source of the steps, shift, bound, stages (Lemma 7 / Lemma 19)',
    'PLUMB': 'the supply parameter (and no other supply) reaches every search', 'LIM': 'limit passed unmodified',
    'ERR': 'search results consumed by `?` or handed to max_response_time',
    'COMBINE': 'per-offset results combined by max_response_time',
    'PRIO': 'priority order function is a < b and its arguments are (interfering, interfered-with)',
    'KIND': 'writer/reader agreement between is_pp and the kinds capped by the busy-window bound',
}


def ros2_prop(which, mode, prop, floor):
    def run(ctx, rep):
        dbg = ctx.crate('dbg')
        rel = ctx.crate('rel')
        for rid, text in ROS2_RULES.items():
            rep.rule(rid, text)
        for a in COMMON_ASSUMPTIONS[:3]:
            rep.assume(a)
        rep.assume('the equation tables in sa/rules_ros2.py transcribe Casini et al. ECRTS\'19 and Blass et al. RTSS\'21; '
                   'that they bound real executor behaviour is the papers\' theorem and is not decided here')
        n = 0
        if 'ecrts19' in which:
            n += rules_ros2.check_ecrts19(rep, dbg, mode)
        if 'rr' in which:
            n += rules_ros2.check_rr(rep, dbg, mode)
        if 'bw' in which:
            n += rules_ros2.check_bw(rep, rel, mode, 'rel')
            n += rules_ros2.check_bw(rep, dbg, mode, 'dbg')
            rules_ros2.check_kind_table_agreement(rep, dbg)
        if mode == 'exact':
            from . import rules_mono
            rep.rule('LIM-NI', 'non-interference: the limit parameter reaches only the divergence-limit argument of search*')
            rules_mono.check_all_limits(rep, dbg, ['ros2::'])
            rep.rule('FP-*', 'the fixed-point kernel every analysis iterates with (see C08)')
            rules_fp.check_search_with_offset(rep, dbg)
            rules_fp.check_max_response_time(rep, dbg)
        rep.floor('analysis entry points', n, {'ecrts19': 4, 'rr': 1, 'bw': 2}.get(which[0], 0) if len(which) == 1 else sum({'ecrts19': 4, 'rr': 1, 'bw': 2}[w] for w in which))
        rep.floor('rule instances', len(rep.instances), floor)
        return (f'Static analysis of the type-checked HIR: the right-hand sides, result expressions and search spaces of the '
                f'ROS 2 analyses are recovered by flow as canonical terms and compared with the papers\' definitions. '
                f'Mode: {rules_rta.MODE_TEXT[mode]}. Decides structural clauses necessary for {prop} for all inputs; does '
                f'NOT decide that the definitions bound real executor schedules, nor the supply-bound inverse (C09).')
    return run


def c20(ctx, rep):
    dbg = ctx.crate('dbg')
    rel = ctx.crate('rel')
    for a in COMMON_ASSUMPTIONS[:2]:
        rep.assume(a)
    rep.assume('additions and multiplications overflow only near 2^64: all time values are assumed < 2^62')
    rep.assume('vetted invariants (spec/vetted_sites.json, LOOP_VETTED) are the papers\' busy-window facts, documented '
               'preconditions and constructor checks; that they hold is not decided')
    rep.assume('items of steps_iter are >= 1 (C11\'s clause; the one implementation that breaks it is the known finding)')
    rep.rule('SITE', 'every raw subtraction / index / unwrap / division / reachable panic, enumerated from the typed HIR in both '
                     'build configurations, is implied safe by its path condition (linear reasoning over non-negative '
                     'roots) or carries a vetted invariant; anything else is a violation')
    rep.rule('TERM', 'every loop matches a strict-progress pattern or a vetted termination argument; every draining consumer '
                     'sees a bounded iterator; no next/peek/any over filter(infinite source)')
    rep.rule('PROFILE', 'every function (and closure) computes the same canonical term in the debug and the release '
                        'configuration, modulo one vetted identity wrapper; debug-only code does not assign')
    vetted = rules_total.load_vetted()
    counts = {}
    nb = rules_total.check_sites(rep, dbg, 'dbg', vetted, counts)
    nb2 = rules_total.check_sites(rep, rel, 'rel', vetted, counts)
    rep.rule('TINV', 'type invariant used by the SITE discharge: the delta-min vector of arrival::curve::Curve is never empty -- every construction '
                     'provides a non-empty literal or asserts non-emptiness (TINV-EST), and afterwards the vector is only ever extended by push in the '
                     'extrapolation routines (CACHE-APPEND)')
    ti = rules_total.check_type_invariants(rep, dbg, 'dbg') + rules_total.check_type_invariants(rep, rel, 'rel')
    rules_models.check_append_only(rep, dbg, 'min_distance', 'src/arrival/curve.rs', {'extrapolate', 'extrapolate_steps', 'extrapolate_with_bound'})
    rep.floor('constructions checked for the type invariant', ti, 2)    # at least Curve::new in both configurations (other constructors may delegate to it)
    l1, c1 = rules_total.check_term(rep, dbg, 'dbg')
    l2, c2 = rules_total.check_term(rep, rel, 'rel')
    np_, nd = rules_total.check_profile(rep, dbg, rel)
    rules_total.check_debug_regions(rep, dbg)
    # the debug-only cross-checks must agree with what they check, or debug builds panic where release builds return
    rep.rule('FWD', 'every auto_impl forwarding impl (&T, Box<T>, Rc<T>) of a model trait forwards every method, also those with a default body')
    fw = rules_total.check_forwarding(rep, dbg)
    rep.floor('forwarding impls', fw, 15)
    rep.rule('FP-SIB', 'the debug-only linear scan agrees with the iterative search on range inclusivity, zero-demand result and Err payload')
    rep.rule('BW-SIB', 'the debug-only brute-force step enumeration of bw::rta_subchain states Lemma 19 with the same shifts as the production search space, over 0..=max_offset')
    rules_fp.check_brute_sibling(rep, dbg)
    rules_total.check_bw_brute_force(rep, dbg)
    # the SITE discharge of `delta - 1` at the length->offset conversions assumes items of steps_iter >= 1: decide that here too
    rep.rule('STEP-NONZERO', 'no steps_iter yields 0 (cross-reference of the assumption used to discharge closed_from_time_zero call sites)')
    rules_models.check_step_nonzero(rep, dbg)
    # the conversion API and the operator impls of time.rs are the transfer functions every other rule relies on
    rep.rule('REF', 'time.rs: every conversion, constant, saturating_sub and operator impl (incl. the derive_more generated Add/Sub/AddAssign/Sum) '
                    'computes the reviewed term (checked raw arithmetic on the wrapped u64, +1/-1 for the closed-interval conversions)')
    nref = rules_models.check_ref(rep, dbg, 'C20')
    rep.floor('time.rs reference summaries', nref, 28)
    # positive / negative controls on the fixtures crate (same driver, same rules, empty vetted table)
    fd, fr = ctx.fixtures('dbg'), ctx.fixtures('rel')
    col = controls.Collector()
    rules_total.check_sites(col, fd, 'dbg', {}, {})
    rules_total.check_sites(col, fr, 'rel', {}, {})
    controls.expect(rep, col, 'SITE', ['bad_raw_sub', 'bad_filter_map_sub', 'bad_index', 'bad_index_minus_one', 'bad_unwrap', 'bad_assert'],
                    ['good_guarded_sub', 'good_early_return_sub', 'good_filter_map_sub', 'good_index', 'good_loop_index', 'good_unwrap'], 'SITE')
    col = controls.Collector()
    rules_total.check_term(col, fd, 'dbg')
    controls.expect(rep, col, 'TERM', ['bad_unbounded_search', 'bad_drain_infinite', 'bad_loop_no_progress', 'bad_float_exit_loop'],
                    ['good_bounded_search', 'good_drain_bounded', 'good_loop_progress'], 'TERM')
    col = controls.Collector()
    rules_total.check_profile(col, fd, fr)
    controls.expect(rep, col, 'PROFILE', ['bad_profile_dependent'], ['good_profile_independent'], 'PROFILE')
    rep.extra['site_counts'] = counts
    rep.extra['vetted_table_entries'] = len(vetted)
    rep.floor('function bodies analysed (dbg)', nb, 200)
    rep.floor('panic-capable sites (both configurations)', sum(counts.values()), 200)
    rep.floor('loops', l1, 15)
    rep.floor('iterator consumers', c1, 45)
    rep.floor('functions compared across profiles', np_, 200)
    return ('Static enumeration, in a debug (assertions + overflow checks) and a release configuration, of every '
            'panic-capable site, loop and iterator consumer of /repo from its type-checked HIR, with path-condition '
            'discharge; plus a term-level comparison of every function between the two configurations. Decides: no new '
            'un-guarded panic site, no unbounded loop/iterator outside the vetted list, no dependence of computed values '
            'on debug-only code. Does NOT decide that the vetted invariants hold, nor floating-point behaviour.')


MODEL_ASSUMPTIONS = COMMON_ASSUMPTIONS[:2] + [
    'the reference summaries in spec/model_summaries.json were reviewed by hand against the definitions (ceil((delta+J)/T), '
    'delta-min lookup with whole-prefix repetition, sliding-window extraction, k-way merge + dedup, ...); REF decides that the '
    'model functions still compute those terms, not that the terms bound real event sequences',
    'a REF mismatch can also be produced by an algorithmic rewrite that preserves behaviour but not the canonical term; renames, '
    're-ordering of commutative operands, let-introduction, helper extraction/inlining and the crate\'s own conversion idioms do not',
]


def model_rules(rep):
    rep.rule('REF', 'canonical summary (value term + one symbolic iteration of every loop, with path conditions) of each model '
                    'function equals the reviewed reference')


def witness_instances(rep, ctx, wanted, prop):
    if hasattr(rep, 'home'):
        return      # imported as a dependency: the type-level witnesses (!Send, !Sync, private field) concern only the home property
    ok, res, tail = witness.run_witnesses(ctx.repo)
    rep.rule('WIT', 'compile_fail doc-tests (expected error code checked on nightly) with compiling no_run twins')
    found = 0
    for name, verdict in sorted(res.items()):
        if not any(name.startswith(w) for w in wanted):
            continue
        found += 1
        key = f'WIT:{name.split("@")[0]}:{"twin" if False else name.split("@")[1]}'
        if verdict == 'ok':
            rep.ok('WIT', f'WIT:{name}', 'witness/src/lib.rs:' + name.split('@')[1], f'witness {name} behaves as required (compile_fail with the expected code / twin compiles)')
        else:
            rep.bad('WIT', f'WIT:{name.split("@")[0]}', 'witness/src/lib.rs:' + name.split('@')[1], f'witness {name}: {verdict}',
                    'the offending program must not type-check, its twin must', direction='the type-level guarantee is gone',
                    why='e.g. the shared cache became Send/Sync or publicly reachable')
    rep.floor('compile-fail witnesses and twins', found, 2 * len(wanted))
    if not res:
        rep.infra_errors.append('witness crate did not build: ' + tail[-400:])


def sem_rules(rep):
    rep.rule('SUP-WF', 'the constructor asserts of each reservation model yield the well-formedness assumptions used below')
    rep.rule('SUP-ZERO', 'provided_service(0) = 0 and service_time(0) = 0, proved by linear entailment over the guarded cases')
    rep.rule('SUP-LIP', '0 <= provided_service(delta + 1) - provided_service(delta) <= 1 for all delta and parameters (quotient-step case split)')
    rep.rule('SUP-INV', 'for d >= 1: provided_service(service_time(d)) >= d and provided_service(service_time(d) - 1) <= d - 1 (composition of the guarded cases)')
    rep.rule('SUP-SIB', 'Constrained[deadline := period] = Periodic, Periodic[budget := period] = Dedicated, Constrained[budget := deadline := period] = Dedicated, for provided_service and service_time')
    rep.rule('SUP-SHAPE', 'provided_service is the supply of the worst-case budget placement, clause by clause: 0 for delta <= (P-B)+(D-B); '
             'delta - blackout on the next B time units; B until blackout + P; and provided_service(delta + P) = provided_service(delta) + B '
             'from the blackout on (D = P for the periodic model; provided_service(delta) = delta for the dedicated processor)')


def c09(ctx, rep):
    crate = ctx.crate('dbg')
    for a in MODEL_ASSUMPTIONS:
        rep.assume(a)
    rep.assume('that the worst-case placement of the budget is "as early as possible in one period, as late as its deadline allows in '
               'all later ones" (first blackout (P-B)+(D-B), then B units of service per period) is the scheduling-model fact of '
               'Shin & Lee; it is taken from the literature, not decided. What is decided (SUP-SHAPE) is that the code computes the '
               'supply of exactly that placement for every delta and all parameters')
    model_rules(rep)
    rep.rule('ST-INIT/ST-RET/ST-STEP', 'default service_time: starts at t = demand, returns t exactly when provided_service(t) >= demand, advances by demand - supply')
    n = rules_models.check_ref(rep, crate, 'C09')
    rules_fp.check_default_service_time(rep, crate)
    sem_rules(rep)
    k = rules_sem.check_supply_laws(rep, crate)
    rep.floor('reference summaries compared', n, 15)
    rep.floor('supply laws instantiated', k, 33)
    return ('Static analysis of supply/. (1) The closed-form supply-bound functions and their closed-form inverses (Periodic, '
            'Constrained, Dedicated), the constructors\' precondition asserts and the forwarding impls are summarised as canonical '
            'terms and compared with reviewed references; the generic jump-ahead inverse is decided by its one-iteration loop '
            'summary. (2) The algebraic laws the property states are PROVED of the current code for all parameters and '
            'arguments, by linear entailment over the guarded cases of each function with quotient/remainder facts for the '
            'integer divisions (sa/linarith.py, Fourier-Motzkin on the case polyhedra; no execution): provided_service(0) = 0, '
            '0 <= provided_service(d+1) - provided_service(d) <= 1, provided_service(service_time(d)) >= d and '
            'provided_service(service_time(d) - 1) <= d - 1 (service_time is the exact inverse), Constrained[deadline := period] = '
            'Periodic and [budget := period] = Dedicated for both methods -- under the assumptions the constructors assert; and '
            'SUP-SHAPE: provided_service(delta) = 0 up to the blackout (P-B)+(D-B), = delta - blackout on the next B units, = B until '
            'blackout + P, and provided_service(delta + P) = provided_service(delta) + B afterwards, which by induction on the number of '
            'periods determines the function: it IS the supply of the worst-case placement (budget first, then as late as the '
            'deadline allows). Not decided: that this placement is the worst one (the scheduling-model fact of the cited paper).')


def c10(ctx, rep):
    crate = ctx.crate('dbg')
    for a in MODEL_ASSUMPTIONS:
        rep.assume(a)
    model_rules(rep)
    rep.rule('ZERO', 'every number_arrivals evaluates to 0 at delta = 0 (guard, ceil(0/T), literal, or delegation)')
    rep.rule('JIT', 'clone_with_jitter: result jitter = existing + added (or fresh Propagated(self, added), or same added jitter to every component)')
    rep.rule('JIT-WINDOW', 'jittered models count over the window delta + jitter')
    rep.rule('DELEG', 'Vec<T>, [T], SumOf: number_arrivals is the sum over every component, same argument, no adaptor in between')
    n = rules_models.check_ref(rep, crate, 'C10')
    z = rules_models.check_zero(rep, crate)
    j = rules_models.check_jitter(rep, crate)
    d = rules_models.check_deleg(rep, crate, 'arrival')
    rep.rule('ARR-ZERO / ARR-MONO', 'Periodic, Sporadic: number_arrivals(0) = 0 and number_arrivals(delta + 1) >= number_arrivals(delta), proved by linear entailment over the guarded cases')
    rep.rule('ARR-CEIL', 'Periodic, Sporadic: for delta >= 1 number_arrivals(delta) is the least n with n * T >= delta + J (= ceil((delta + J) / T)): attained by the synchronous maximally jittered release sequence, and sub-additive by leastness')
    al = rules_sem.check_arrival_laws(rep, crate)
    rep.floor('closed-form arrival laws proved', al, 8)
    rep.floor('reference summaries compared', n, 36)
    rep.floor('number_arrivals implementations', z, 10)
    rep.floor('clone_with_jitter implementations + window checks', j, 12)
    rep.floor('composite number_arrivals', d, 3)
    return ('Static analysis of the arrival models: every model function is summarised as a canonical term (closed forms) or a '
            'one-iteration loop summary and compared with a reviewed reference; plus zero-at-zero, jitter additivity, '
            'window widening and superposition clauses. For the two closed-form models (Periodic, Sporadic) the laws are '
            'PROVED of the current code for all parameters by linear entailment with quotient/remainder facts '
            '(sa/linarith.py): zero at zero, non-decreasing, and number_arrivals(delta) = ceil((delta + J) / T) for '
            'delta >= 1. Decides these clauses for all parameters; does NOT decide that table-driven models '
            '(Curve, ArrivalCurvePrefix, Poisson) bound real event sequences (numeric).')


def c11(ctx, rep):
    crate = ctx.crate('dbg')
    for a in MODEL_ASSUMPTIONS:
        rep.assume(a)
    model_rules(rep)
    rep.rule('STEP-NONZERO', 'no steps_iter yields 0 (literal zero source / derived lower bound of the items)')
    rep.rule('STEP-SEAM', 'Sporadic/Propagated: the shifted tail keeps exactly the values >= 2, shift subtracts the jitter once')
    rep.rule('STEP-DEDUP', 'composite steps_iter = dedup(kmerge/merge(component steps))')
    rep.rule('STEP-CONV', 'demand::step_offsets maps every step delta to the offset delta - 1')
    n = rules_models.check_ref(rep, crate, 'C11')
    a = rules_models.check_step_nonzero(rep, crate)
    b = rules_models.check_step_seams(rep, crate)
    c = rules_models.check_step_dedup(rep, crate)
    d = rules_models.check_step_conversion(rep, crate)
    rep.rule('STEP-LAW', 'Periodic, Sporadic: steps_iter yields exactly the points of increase of number_arrivals -- sound (every yielded value is >= 1 and an increase), complete (every increase is period * j + c for j = (delta - c) / period, in range and passing the filter), strictly increasing -- proved by linear entailment')
    sl = rules_sem.check_step_laws(rep, crate)
    rep.floor('closed-form step laws proved', sl, 7)
    col = controls.Collector()
    rules_models.check_step_nonzero(col, ctx.fixtures('dbg')) if False else None
    rep.floor('reference summaries compared', n, 24)
    rep.floor('steps_iter implementations', a, 13)
    rep.floor('seams', b, 2)
    rep.floor('composite steps_iter', c, 5)
    return ('Static analysis of every steps_iter implementation (arrival and request bounds): canonical iterator terms are '
            'compared with reviewed references; no zero item, exact seam guards, merge followed by dedup, and the '
            'length-to-offset conversion are decided separately. Does NOT decide that the yielded values coincide with the '
            'increase points of number_arrivals for given parameters (numeric).')


def c12(ctx, rep):
    crate = ctx.crate('dbg')
    for a in MODEL_ASSUMPTIONS:
        rep.assume(a)
    model_rules(rep)
    rep.rule('TRACE', 'arrival::Curve::from_trace: whole window scanned newest-first before the push; eviction iff len > prefix')
    n = rules_models.check_ref(rep, crate, 'C12')
    t = rules_models.check_trace(rep, crate, 'arrival::curve::Curve::from_trace', window_push_first=False)
    rep.rule('CONV', 'Curve::from(Periodic).number_arrivals equals Periodic::number_arrivals for every interval length and period: proved by linear '
                     'entailment from the code of Curve::number_arrivals specialised to the one-element delta-min vector the conversion builds')
    k = rules_sem.check_conversion_laws(rep, crate)
    rep.floor('reference summaries compared', n, 20)
    rep.floor('trace extraction', t, 1)
    rep.floor('conversion laws decided', k, 1)
    return ('Static analysis of the curve-derivation code (from_trace, from_arrival_bound(_until), prefix conversions, '
            'delta-min iterator): one-iteration loop summaries and value terms are compared with reviewed references '
            '(cut-off predicates, the (n, delta-1) dual, prefix hand-over horizon+1 / njobs+1); the sliding-window shape is '
            'decided separately. For the periodic conversion the clause "coincides with its source" is PROVED for every interval '
            'length (CONV). Does NOT decide domination beyond the prefix for the other sources (super-additivity arithmetic).')


def c13(ctx, rep):
    crate = ctx.crate('dbg')
    for a in MODEL_ASSUMPTIONS:
        rep.assume(a)
    model_rules(rep)
    rep.rule('CACHE-SCOPE', 'no call that may (transitively) borrow a RefCell inside the scope of a guard of the cache')
    rep.rule('CACHE-ESCAPE', 'no guard is returned, stored in a struct, or captured by a closure')
    rep.rule('CACHE-APPEND', 'who-may-write: min_distance is only extended by push, only in the extrapolation routines')
    rep.rule('CACHE-ORDER', 'number_arrivals extends the cache to query + k, k >= 1, before the lookup')
    n = rules_models.check_ref(rep, crate, 'C13')
    c = rules_models.check_cache(rep, crate, 'src/arrival/curve.rs', 'C13')
    a = rules_models.check_append_only(rep, crate, 'min_distance', 'src/arrival/curve.rs', {'extrapolate', 'extrapolate_steps', 'extrapolate_with_bound'})
    o = rules_models.check_extrapolate_before_lookup(rep, crate, '<arrival::curve::ExtrapolatingCurve as arrival::ArrivalBound>::number_arrivals',
                                                     'arrival::curve::Curve::extrapolate', 'arrival::ArrivalBound::number_arrivals', 'arrival')
    witness_instances(rep, ctx, ['ArrivalExtrapolatingCurveIsNotSend', 'ArrivalExtrapolatingCurveIsNotSync', 'CacheFieldIsPrivate'], 'C13')
    fx = ctx.fixtures('dbg')
    col = controls.Collector()
    rules_models.check_cache(col, fx, 'src/lib.rs', 'C13')
    rules_models.check_append_only(col, fx, 'cell', 'src/lib.rs', set())
    rep.fixture('CACHE-SCOPE:bad_reentrant', bool(col.fired_for('bad_reentrant', 'CACHE-SCOPE')))
    rep.fixture('CACHE-SCOPE:good_sequential:silent', not col.fired_for('good_sequential', 'CACHE-SCOPE'))
    rep.fixture('CACHE-ESCAPE:bad_escape', bool(col.fired_for('bad_escape', 'CACHE-ESCAPE')))
    rep.floor('reference summaries compared', n, 15)
    rep.floor('RefCell borrow sites', c, 3)
    rep.floor('writers of the cache', a, 3)
    return ('Static analysis of arrival/curve.rs: RefCell discipline of the shared extrapolation cache (guard scopes, escape, '
            'transitive may-borrow effects; with compile-fail witnesses that the type is !Send, !Sync and its cache field '
            'private, re-entrancy is the only way to a borrow failure and it is excluded), append-only writers, '
            'extrapolate-before-lookup with horizon query+1, and reference summaries of the extrapolation routines '
            '(combiner max over k in 0..=n/2). Does NOT decide conservativeness against event sequences.')


def c14(ctx, rep):
    crate = ctx.crate('dbg')
    for a in MODEL_ASSUMPTIONS:
        rep.assume(a)
    model_rules(rep)
    rep.rule('TRACE', 'wcet::Curve::from_trace: push, evict, then scan the whole window newest-first')
    rep.rule('CACHE-*', 'RefCell discipline, append-only writers and extrapolate-before-lookup for wcet::ExtrapolatingCurve')
    n = rules_models.check_ref(rep, crate, 'C14')
    t = rules_models.check_trace(rep, crate, 'wcet::curve::Curve::from_trace', window_push_first=True)
    c = rules_models.check_cache(rep, crate, 'src/wcet/curve.rs', 'C14')
    a = rules_models.check_append_only(rep, crate, 'wcet_of_n_jobs', 'src/wcet/curve.rs', {'extrapolate'})
    o = rules_models.check_extrapolate_before_lookup(rep, crate, '<wcet::curve::ExtrapolatingCurve as wcet::JobCostModel>::cost_of_jobs',
                                                     'wcet::curve::Curve::extrapolate', 'wcet::JobCostModel::cost_of_jobs', 'wcet')
    witness_instances(rep, ctx, ['WcetExtrapolatingCurveIsNotSend', 'WcetExtrapolatingCurveIsNotSync'], 'C14')
    rep.rule('COST-ZERO', 'cost_of_jobs(0) = 0 for every implementation (default: take(0); overrides: linear entailment over the guarded cases)')
    rep.rule('COST-SUM', 'cost_of_jobs(n) is the sum of the first n items of job_cost_iter: by the default\'s definition, by repeat(c) with c * n, or because the items are the telescoping differences cost_of_jobs(k) - cost_of_jobs(k - 1)')
    rep.rule('COST-LEAST', 'least_wcet(n) is the minimum of the first n items (0 if none): default definition; Scalar; Multiframe (cycle); table-driven curves on the recorded prefix')
    rep.rule('COST-PREFIX', 'table-driven curves return table[n - 1] for 1 <= n <= len (linear entailment with quotient/remainder facts and index congruence)')
    cl = rules_sem.check_cost_laws(rep, crate)
    rep.floor('cost-model laws decided', cl, 16)
    rep.floor('reference summaries compared', n, 28)
    rep.floor('RefCell borrow sites', c, 2)
    rep.floor('writers of the cache', a, 1)
    return ('Static analysis of the job-cost models: reference summaries of every cost_of_jobs / job_cost_iter / least_wcet '
            '(sum of the first n items, successive differences, min over the first n increments with the loop range '
            '1..min(len, n)), the trace-extraction loop (newest-first scan of the whole window), the sub-additive '
            'extrapolation (min over k in 0..=n/2) and the RefCell discipline / append-only / extrapolate(n+1)-before-lookup '
            'clauses of the caching variant, with compile-fail witnesses for !Send/!Sync. The algebraic laws of the property '
            '(cost_of_jobs(0) = 0, cost_of_jobs(n) = sum of the first n items, least_wcet(n) <= every one of them, the recorded '
            'prefix is returned unchanged) are decided per implementation from the shapes of its three methods and by linear '
            'entailment (sa/linarith.py). Does NOT decide domination of traces beyond the prefix, nor monotonicity of a '
            'user-supplied table (a documented precondition of Curve::new; FromIterator enforces it).')


def c15(ctx, rep):
    crate = ctx.crate('dbg')
    for a in MODEL_ASSUMPTIONS[:2]:
        rep.assume(a)
    rep.assume('floating-point accuracy, overflow of k! and mean^k, underflow of exp(-mean) and the value returned for large means '
               'are NOT decided: they depend on rounding, not on code shape')
    model_rules(rep)
    rep.rule('TERM', 'the accumulation loop of ApproximatedPoisson::number_arrivals needs an exit that does not depend on a floating-point sum')
    rep.rule('ZERO', 'number_arrivals(0) = 0 by the delta guard')
    n = rules_models.check_ref(rep, crate, 'C15')
    # termination: the same TERM rule as C20, restricted to poisson.rs
    col = controls.Collector()
    rules_total.check_term(col, crate, 'dbg')
    k = 0
    for b in col.bads + col.oks:
        if 'poisson' in (b.get('fn') or ''):
            k += 1
            if b in col.bads:
                rep.bad(b['rule'], b['key'], 'src/arrival/poisson.rs', b['fact'], 'an exit that does not depend on a floating-point sum (e.g. a bound on njobs)', fn=b['fn'],
                        direction='does not terminate when the accumulated probability never reaches 1 - epsilon',
                        why='exp(-mean) underflows to 0 for mean >= ~745 and k!/mean^k overflow: the sum then stays at 0 or becomes NaN')
            else:
                rep.ok(b['rule'], b['key'], 'src/arrival/poisson.rs', b['fact'], fn=b['fn'])
    z = 0
    for b in rules_models.impls_of(crate, 'arrival::ArrivalBound', 'number_arrivals'):
        if 'poisson' in b.path:
            from .evalr import Evaluator
            from . import term as T
            t = Evaluator(crate).eval_body(b)
            t0 = T.substitute(t, {T.unroot(rules_models.P(1)): T.const(0)})
            z += 1
            if T.as_lin(t0) == T.const(0):
                rep.ok('ZERO', f'ZERO:{b.path}', 'src/arrival/poisson.rs', 'number_arrivals(0) evaluates to the constant 0 (guard on delta)', fn=b.path)
            else:
                rep.bad('ZERO', f'ZERO:{b.path}', 'src/arrival/poisson.rs', f'number_arrivals(0) = {T.show(t0)[:160]}', '0', fn=b.path)
    rep.floor('reference summaries compared', n, 5)
    rep.floor('loops / consumers of poisson.rs inspected', k, 1)
    rep.floor('zero guard', z, 1)
    return ('Narrow static claim for the Poisson model: arrival_probability and number_arrivals compute the documented formula as written '
            '(e^-m * m^k / k! with m = rate*delta; accumulate until the cumulative probability plus epsilon reaches 1), number_arrivals(0) = 0, '
            'and the termination clause: the accumulation loop has no exit other than a floating-point comparison -- reported today as a '
            'known finding (it does not return for means of about 745 and more). Does NOT decide that the returned value is the quantile '
            '(for large means it is not: factorial and power overflow), monotonicity in delta, or any floating-point accuracy.')


def c16(ctx, rep):
    crate = ctx.crate('dbg')
    for a in MODEL_ASSUMPTIONS:
        rep.assume(a)
    model_rules(rep)
    rep.rule('DELEG', 'Aggregate/Slice: sum / min(default 0) over every component of the same method with the arguments passed through')
    n = rules_models.check_ref(rep, crate, 'C16')
    d = rules_models.check_deleg(rep, crate, 'demand')
    rep.rule('DEMAND-DEF', 'the default service_needed is the sum of job_cost_iter(delta); the default service_needed_by_n_jobs is the sum of its n largest items; nobody overrides the latter')
    rep.rule('DEMAND-RBF', 'RBF: service_needed = cost_of_jobs(N), job_cost_iter = first N items, least_wcet_in_interval = least_wcet(N) for the one N = number_arrivals(delta)')
    rep.rule('DEMAND-AGG', 'Aggregate/Slice: job_cost_iter is a merge of the components\' job_cost_iter(delta) over the same collection service_needed sums over')
    dl = rules_sem.check_demand_laws(rep, crate)
    rep.floor('request-bound laws decided', dl, 5)
    rep.floor('reference summaries compared', n, 36)
    rep.floor('composite request-bound methods', d, 6)
    return ('Static analysis of demand/: RBF composes cost_of_jobs(number_arrivals(delta)), job_cost_iter takes exactly '
            'number_arrivals(delta) items; Aggregate and Slice delegate by sum / min / k-merge over every component; the default '
            'service_needed_by_n_jobs is sorted -> rev -> take(max_jobs) -> sum; the auto_impl forwards call the same method '
            'with the same arguments -- each decided as identity of canonical terms with reviewed references plus the DELEG '
            'form. The relations the property states between the methods (job_cost_iter sums to service_needed; '
            'service_needed_by_n_jobs is non-decreasing in n, at most service_needed, equal to it from the number of jobs on, and '
            'the sum of the n largest costs) follow from the definitional shapes decided by DEMAND-DEF / DEMAND-RBF / DEMAND-AGG '
            'together with C14\'s COST-SUM. Does NOT decide anything about user-supplied models beyond the trait axioms.')


class OnlyRules:
    """forwards the instances of selected rules to a report (used to import LIM/ERR clauses into C17)"""

    def __init__(self, rep, rules):
        self.rep, self.rules = rep, rules
        self.instances = []

    def ok(self, rule, *a, **k):
        if rule in self.rules:
            self.rep.ok(rule, *a, **k)

    def bad(self, rule, *a, **k):
        if rule in self.rules or rule == 'ANCHOR':
            self.rep.bad(rule, *a, **k)

    def undecided_note(self, *a, **k):
        pass

    def floor(self, *a, **k):
        pass

    def rule(self, *a):
        pass

    def assume(self, *a):
        pass


def c17(ctx, rep):
    dbg = ctx.crate('dbg')
    for a in COMMON_ASSUMPTIONS[:3]:
        rep.assume(a)
    rep.assume('monotonicity of the *maximum over a pruned search space* additionally needs C06\'s losslessness, and monotonicity of '
               'numeric least fixed points needs monotone right-hand sides: only the latter (per closure) is decided here')
    rep.rule('MONO-X', 'variance typing: every closure that reaches the workload argument of search* is non-decreasing in its parameter')
    rep.rule('MONO-DEMAND', 'every right-hand side is non-decreasing in every service_needed / number_arrivals / cost_of_jobs term')
    rep.rule('MONO-PARAM', 'non-decreasing in blocking bounds, assumed response-time bounds, polling-point bounds')
    rep.rule('MONO-SET', 'sums over task/callback collections have non-negative summands (adding interference never lowers a bound)')
    rep.rule('LIM', 'the limit parameter reaches every search unmodified; with C08\'s non-interference an Ok never depends on it')
    rep.rule('ERR', 'no Err is turned into Ok: every search result is propagated by `?` or handed to max_response_time')
    n1 = rules_mono.check_rta(rep, dbg)
    n2 = rules_mono.check_ros2(rep, dbg)
    rep.rule('LIM-NI', 'non-interference: the limit parameter of every analysis reaches only the divergence-limit argument of search*')
    n3 = rules_mono.check_all_limits(rep, dbg)
    rep.floor('analyses checked for limit non-interference', n3, 15)
    only = OnlyRules(rep, {'LIM', 'ERR', 'LIM-NI'})
    for p in FP + EDF + FIFO:
        rules_rta.check_analysis(only, dbg, p, 'safe', 'C17')
    rules_ros2.check_ecrts19(only, dbg, 'safe')
    rules_ros2.check_rr(only, dbg, 'safe')
    rules_ros2.check_bw(only, dbg, 'safe', 'dbg')
    rules_fp.check_search_with_offset(only, dbg)
    rep.floor('right-hand sides typed (FP/EDF/FIFO)', n1, 17)
    rep.floor('right-hand sides typed (ROS 2)', n2, 11)
    rep.floor('rule instances', len(rep.instances), 150)
    return ('Static variance typing of every closure that reaches fixed_point::search* in the nine dedicated-processor analyses '
            'and the ROS 2 analyses: non-decreasing in the fixed-point variable, in every demand/arrival/cost term, in blocking, '
            'assumed response-time and polling-point bounds; non-negative summands over task/callback sets; plus the LIM/ERR '
            'clauses (limit only a threshold, errors never swallowed). Only a provably decreasing dependence is a violation; '
            'undecided variances (e.g. WCET through C*n - (C-1), differences of costs) are listed as undecided. Does NOT '
            'decide monotonicity of the numeric results themselves.')


PROPS = {
    'C17': c17,
    'C09': c09, 'C10': c10, 'C11': c11, 'C15': c15, 'C12': c12, 'C13': c13, 'C14': c14, 'C16': c16,
    'C20': c20,
    'C04': ros2_prop(['ecrts19'], 'safe', 'C04', 40),
    'C05': ros2_prop(['rr', 'bw'], 'safe', 'C05', 25),
    'C07': ros2_prop(['ecrts19', 'rr', 'bw'], 'exact', 'C07', 65),
    'C19': c19,
    'C08': c08,
    'C01': rta_prop(FP, 'safe', 'C01', 40,
                    'the four FP analyses implement BW, OFF_A, the run-to-completion bookkeeping, the result '
                    'extraction and the search space of the cited analysis, with no deviation in the unsafe direction'),
    'C02': rta_prop(EDF, 'safe', 'C02', 40,
                    'the four EDF analyses implement BW, OFF_A (deadline-shifted interference window, '
                    'offset-dependent blocking), the result extraction and the three-component search space, '
                    'with no deviation in the unsafe direction'),
    'C03': rta_prop(FIFO, 'safe', 'C03', 8,
                    'the FIFO analysis implements L = lfp total_rbf, R(A) = total_rbf(A+1) - A, search space '
                    'steps-1 below L, maximum with default 0'),
    'C06': rta_prop(FP + EDF + FIFO, 'exact', 'C06', 90,
                    'all nine analyses agree *exactly* with their defining equations, pruning to steps is '
                    'justified for every dependence on the offset, errors and the limit are only passed through'),
    'C18': rta_prop([FP[0], FP[1]] + FIFO, 'tight', 'C18', 20,
                    'FP-P, FP-NP and FIFO contain no term, shift or offset in excess of the equations '
                    '(pessimistic direction)'),
}


# ---------------------------------------------------------------- dependencies between properties
#
# A behavioural property of an analysis also rests on the model code it calls: a change in `Sporadic::steps_iter` breaks
# C01..C07 (an offset drops out of every search space) although the analyses' own equations are untouched.  Each check
# therefore also runs the clause sets of the properties it depends on; a clause that fails there is reported here as
# well (under its own rule and key, marked as a dependency).  Known findings stay with their home property.

DEPS = {
    'C01': ['C08', 'C11', 'C16', 'C14', 'C10'],
    'C02': ['C08', 'C11', 'C16', 'C14', 'C10'],
    'C03': ['C08', 'C11', 'C16', 'C14', 'C10'],
    'C04': ['C08', 'C09', 'C11', 'C16', 'C14', 'C10'],
    'C05': ['C08', 'C09', 'C11', 'C16', 'C14', 'C10'],
    'C06': ['C11', 'C16'],
    'C08': ['C09'],
    'C07': ['C11', 'C16', 'C09'],
    'C10': ['C12', 'C13'],
    'C11': ['C10', 'C13'],
    'C12': ['C11', 'C10'],
    'C16': ['C14', 'C10'],
    'C17': ['C06', 'C07', 'C09', 'C14', 'C10'],
    'C18': ['C08', 'C10', 'C11', 'C12', 'C13', 'C14', 'C16'],
    # "the event-source analysis equals the FIFO analysis on a dedicated processor", "every ROS 2 analysis gives the same
    # result for the three equivalent supplies": each side must compute its own defining equation (the exactness clauses)
    'C19': ['C08', 'C11', 'C16', 'C06', 'C07'],
    # the library's own debug cross-checks compare the kernel with its brute-force sibling: a kernel that leaves its
    # specification makes debug builds panic where release builds return
    'C20': ['C08'],
}


SAFETY_PROPS = ('C01', 'C02', 'C03', 'C04', 'C05')
# the direction in which a model function may deviate without making any response-time bound smaller
PESSIMISTIC_DIRECTION = {'number_arrivals': 'over', 'cost_of_jobs': 'over', 'service_needed': 'over', 'service_time': 'over',
                         'divide_with_ceil': 'over', 'provided_service': 'under', 'least_wcet': 'under',
                         'least_wcet_in_interval': 'under'}


class DepReport:
    """recording interface of Report for a dependency's clause set: failures are forwarded to the depending report"""

    def __init__(self, parent, home):
        from .report import load_known
        self.parent, self.home = parent, home
        self.prop = parent.prop
        self.tier, self.seed = parent.tier, parent.seed
        self.known = load_known(home)
        self.instances = []
        self.infra_errors = parent.infra_errors
        self.functions = parent.functions
        self.extra = {}
        self.n_ok = 0
        self.violations = []

    def ok(self, rule, key, *a, **k):
        self.instances.append(key)
        self.n_ok += 1

    def bad(self, rule, key, where, fact, expected=None, direction=None, fn=None, why=None):
        self.instances.append(key)
        if key in self.known:
            # a recorded finding of the home property: reported (KNOWN-FINDING) by that property's check
            self.parent.assume(f'the dependency {self.home} carries the recorded known finding {key} (reported as KNOWN-FINDING by the '
                               f'check of {self.home}; inputs that exercise it are outside what this check decides)')
            return
        if self.prop in SAFETY_PROPS and direction and direction.startswith('pessimistic-only'):
            self.n_ok += 1      # the tight side of a two-sided law: cannot make a safety bound optimistic
            return
        if self.prop in SAFETY_PROPS and rule == 'REF' and direction and fn:
            # a model function that provably only became more pessimistic cannot make a safety bound optimistic
            name = fn.split('::')[-1]
            want = PESSIMISTIC_DIRECTION.get(name)
            if want and direction.startswith(want):
                self.n_ok += 1
                return
        self.violations.append(key)
        self.parent.bad(rule, key, where, fact, expected, direction=direction, fn=fn,
                        why=((why + ' ') if why else '') + f'[a clause of {self.home}, on which {self.prop} depends]')

    def floor(self, name, found, minimum, where='(crate)'):
        if found < minimum:
            self.bad('FLOOR', f'FLOOR:{name}', where, f'only {found} instance(s) of {name} found', f'at least {minimum}',
                     why='an anchor of this rule disappeared; the rule would pass vacuously')

    def fixture(self, name, fired):
        self.parent.fixture(name, fired)

    def rule(self, *a):
        pass

    def assume(self, *a):
        if a and 'carries the recorded known finding' in str(a[0]):
            self.parent.assume(*a)

    def undecided_note(self, *a, **k):
        pass


def _with_deps(p, fn):
    def run(ctx, rep):
        out = fn(ctx, rep)
        seen = getattr(rep, 'dep_seen', None)
        if seen is None:
            seen = rep.dep_seen = {p}
        for home in DEPS.get(p, []):
            if home in seen:
                continue        # already part of this run (dependencies may be mutual)
            seen.add(home)
            sub = DepReport(rep, home)
            sub.dep_seen = seen
            PROPS[home](ctx, sub)
            rep.rule(f'DEP:{home}', f'the clause set of {home} (the model code this property rests on), run on the same tree; failures are reported here under their own rule and key')
            if not sub.violations:
                rep.ok(f'DEP:{home}', f'DEP:{home}', '(crate)', f'{sub.n_ok} clause instance(s) of {home} hold', nontrivial=True)
        return out
    return run


PROPS = {p: _with_deps(p, fn) for p, fn in PROPS.items()}
