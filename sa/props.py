"""Property -> rules."""

from . import rules_rta, rules_fp
from .rta_model import ANALYSES

FP = [p for p in ANALYSES if p.startswith('fixed_priority::')]
EDF = [p for p in ANALYSES if p.startswith('edf::')]
FIFO = [p for p in ANALYSES if p.startswith('fifo::')]

RTA_RULES = {
    'SPEC-BW': 'the closure that reaches the workload argument of the search bounding the offsets, evaluated '
               'symbolically, compared with the busy-window equation of the cited analysis',
    'SPEC-OFF': 'the closure that reaches the workload argument of the per-offset search, compared with the '
                'per-offset equation (own demand on the closed interval [0,A], blocking, interference at the '
                'fixed-point variable, run-to-completion correction)',
    'SPEC-RES': 'the value each offset is mapped to, compared with x* - A + remaining cost',
    'SPACE': 'the iterator that reaches max_response_time/max: components, shift of each step, bound, stages',
    'PLUMB': 'supply argument of every search',
    'LIM': 'limit argument of every search is the limit parameter (linear-form difference 0)',
    'ERR': 'every search result is consumed by `?`',
    'COMBINE': 'per-offset results are combined by max_response_time (FP/EDF) or max with default 0 (FIFO)',
    'DOM': 'every use of the offset A inside the per-offset equation is f(A+u) for a component steps(f)-u of '
           'the search space, or a declared monotone exemption',
}

COMMON_ASSUMPTIONS = [
    'rustc front end (name resolution, type check, HIR lowering) and the rta-facts serialiser are trusted',
    'linear forms ignore u64 wrap-around; all roots are non-negative integers',
    'trait implementations supplied by users satisfy the monotonicity axioms in sa/compare.py',
    'the equation tables in sa/rta_model.py transcribe aRTA Thm 31 as instantiated in Prosa; that these equations '
    'bound real schedules is the papers\' theorem and is not decided here',
]


def rta_prop(paths, mode, prop, floor_instances, what):
    def run(ctx, rep):
        crate = ctx.crate('dbg')
        for rid, text in RTA_RULES.items():
            rep.rule(rid, text)
        for a in COMMON_ASSUMPTIONS:
            rep.assume(a)
        models = 0
        for p in paths:
            m = rules_rta.check_analysis(rep, crate, p, mode, prop)
            if m is not None:
                models += 1
        rep.floor('analysis entry points', models, len(paths))
        rep.floor('rule instances', len(rep.instances), floor_instances)
        return (f'Static analysis of the type-checked HIR of /repo (re-extracted by this run). Decides named '
                f'structural clauses that are necessary for {prop} -- {what} -- for all inputs, because the '
                f'clauses do not mention inputs. Mode: {rules_rta.MODE_TEXT[mode]}. It does NOT decide the '
                f'behavioural property itself (that the equations bound every schedule is the cited theorem).')
    return run


def c08(ctx, rep):
    dbg = ctx.crate('dbg')
    rel = ctx.crate('rel')
    for a in COMMON_ASSUMPTIONS[:2]:
        rep.assume(a)
    rep.assume('Iterator::max_by keeps the accumulated (left) item iff the comparator returns Greater (std semantics)')
    rep.assume('leastness itself additionally needs a monotone workload and a supply that grows by at most one per '
               'time unit; those are numeric facts and are not decided here')
    rep.rule('FP-INIT', 'first assumed value of the iteration is the constant 1')
    rep.rule('FP-GUARD', 'the loop is left exactly when assumed > limit (canonical inequality)')
    rep.rule('FP-OK', 'the only return inside the loop is Ok(service_time(workload(assumed)) - offset) under bound <= assumed')
    rep.rule('FP-STEP', 'the only assignment to the iteration variable is := bound on the complementary branch')
    rep.rule('LIM-NI', 'non-interference: divergence_limit does not reach any Ok payload')
    rep.rule('FP-ERR', 'fall-through value is Err(DivergenceLimitExceeded{offset, limit}) built from the parameters')
    rep.rule('FP-WRAP', 'search == search_with_offset(supply, 0, limit, &workload) in the debug and the release configuration')
    rep.rule('ERR-ORIGIN', 'who-may-construct: SearchFailure values are built only inside the fixed-point kernel')
    rep.rule('FP-MAX', 'max_response_time: comparator table, default Ok(0), no adaptor, unwraps dominated by !is_err')
    rep.rule('FP-SIB', 'the debug-only linear scan agrees on range inclusivity, zero-demand result and Err payload')
    rep.rule('ST-INIT/ST-RET/ST-STEP', 'default service_time: starts at demand, returns under supply >= demand, advances by demand - supply')
    rules_fp.check_search_with_offset(rep, dbg)
    rules_fp.check_search(rep, dbg, 'dbg')
    rules_fp.check_search(rep, rel, 'rel')
    rules_fp.check_err_origin(rep, dbg, 'dbg')
    rules_fp.check_err_origin(rep, rel, 'rel')
    rules_fp.check_max_response_time(rep, dbg)
    rules_fp.check_brute_sibling(rep, dbg)
    rules_fp.check_default_service_time(rep, dbg)
    rep.floor('rule instances', len(rep.instances), 20)
    return ('Static dataflow analysis of fixed_point.rs and the default SupplyBound::service_time: each loop is '
            'summarised by one symbolic iteration (loop-carried variable = root, every return/assignment/break with its '
            'path condition as canonical linear inequalities). Decides ten structural clauses necessary for C08 (start '
            'value, inclusive guard, Ok payload and condition, strict progress, limit non-interference, Err payload and '
            'origin, search wrapper in both build configurations, comparator of max_response_time, sibling agreement). '
            'Does NOT decide leastness for a given numeric workload.')


PROPS = {
    'C08': c08,
    'C01': rta_prop(FP, 'safe', 'C01', 40,
                    'the four FP analyses implement BW, OFF_A, the run-to-completion bookkeeping, the result '
                    'extraction and the search space of the cited analysis, with no deviation in the unsafe direction'),
    'C02': rta_prop(EDF, 'safe', 'C02', 40,
                    'the four EDF analyses implement BW, OFF_A (deadline-shifted interference window, '
                    'offset-dependent blocking), the result extraction and the three-component search space, '
                    'with no deviation in the unsafe direction'),
    'C03': rta_prop(FIFO, 'safe', 'C03', 8,
                    'the FIFO analysis implements L = lfp total_rbf, R(A) = total_rbf(A+1) - A, search space '
                    'steps-1 below L, maximum with default 0'),
    'C06': rta_prop(FP + EDF + FIFO, 'exact', 'C06', 90,
                    'all nine analyses agree *exactly* with their defining equations, pruning to steps is '
                    'justified for every dependence on the offset, errors and the limit are only passed through'),
    'C18': rta_prop([FP[0], FP[1]] + FIFO, 'tight', 'C18', 20,
                    'FP-P, FP-NP and FIFO contain no term, shift or offset in excess of the equations '
                    '(pessimistic direction)'),
}
