"""Compile-fail witnesses: build a scratch copy of /verif/witness against the tree under analysis and run
`cargo +nightly test --doc` (the doc-tests that must not compile carry an expected error code; the compiling twins
are no_run)."""

import os
import re
import shutil
import subprocess
import fcntl

VERIF = os.path.dirname(os.path.dirname(os.path.abspath(__file__)))
CACHE = os.path.join(VERIF, '.cache')


def _prune(target):
    """remove what one scratch run added to a shared target directory: the artifacts of the two path crates (their hash
    depends on the path of the scratch copy, so they are never reused) and all incremental state; registry dependencies stay"""
    import glob
    for pat in ('debug/deps/*response_time_analysis-*', 'debug/deps/*rta_witness-*', 'debug/deps/rust_out*',
                'debug/.fingerprint/response-time-analysis-*', 'debug/.fingerprint/rta-witness-*'):
        for f in glob.glob(os.path.join(target, pat)):
            if os.path.isdir(f):
                shutil.rmtree(f, ignore_errors=True)
            else:
                try:
                    os.remove(f)
                except OSError:
                    pass
    shutil.rmtree(os.path.join(target, 'debug', 'incremental'), ignore_errors=True)


def run_witnesses(repo):
    """-> (ok: bool, results: {test name: 'ok'|'FAILED'}, raw tail)"""
    main = os.path.realpath(repo) == '/repo'
    # a fixed location per kind of tree: the crate's own path is part of its artifact hash, so a per-process directory
    # would leave new artifacts behind on every run
    kind = 'main' if main else 'scratch'
    wdir = os.path.join(CACHE, f'witness-{kind}')
    target = os.path.join(CACHE, 'target-witness' if main else 'target-witness-scratch')
    os.makedirs(CACHE, exist_ok=True)
    lk = open(os.path.join(CACHE, f'lock-witness-{kind}'), 'w')
    fcntl.flock(lk, fcntl.LOCK_EX)
    shutil.rmtree(wdir, ignore_errors=True)
    os.makedirs(os.path.join(wdir, 'src'))
    try:
        with open(os.path.join(VERIF, 'witness', 'Cargo.toml.in')) as f:
            toml = f.read().replace('@REPO@', os.path.realpath(repo))
        with open(os.path.join(wdir, 'Cargo.toml'), 'w') as f:
            f.write(toml)
        shutil.copy(os.path.join(VERIF, 'witness', 'src', 'lib.rs'), os.path.join(wdir, 'src', 'lib.rs'))
        lock = os.path.join(repo, 'Cargo.lock')
        if os.path.exists(lock):
            shutil.copy(lock, os.path.join(wdir, 'Cargo.lock'))
        env = dict(os.environ, CARGO_NET_OFFLINE='true', CARGO_TARGET_DIR=target, CARGO_INCREMENTAL='0')
        env.pop('RUSTC_WORKSPACE_WRAPPER', None)
        r = subprocess.run(['cargo', '+nightly', 'test', '--doc', '--offline'], cwd=wdir, capture_output=True, text=True, env=env)
        out = r.stdout + r.stderr
        results = {}
        for m in re.finditer(r'^test (src/lib\.rs - (\S+) \(line (\d+)\)(?: - [a-z_ ]+)*) \.\.\. (\w+)', out, re.M):
            results[f'{m.group(2)}@{m.group(3)}'] = m.group(4)
        return r.returncode == 0, results, out[-3000:]
    finally:
        shutil.rmtree(wdir, ignore_errors=True)
        if not main:
            _prune(target)
        lk.close()
