"""Compile-fail witnesses: build a scratch copy of /verif/witness against the tree under analysis and run
`cargo +nightly test --doc` (the doc-tests that must not compile carry an expected error code; the compiling twins
are no_run)."""

import os
import re
import shutil
import subprocess
import fcntl

VERIF = os.path.dirname(os.path.dirname(os.path.abspath(__file__)))
CACHE = os.path.join(VERIF, '.cache')


def run_witnesses(repo):
    """-> (ok: bool, results: {test name: 'ok'|'FAILED'}, raw tail)"""
    wdir = os.path.join(CACHE, f'witness-{os.getpid()}')
    shutil.rmtree(wdir, ignore_errors=True)
    os.makedirs(os.path.join(wdir, 'src'))
    try:
        with open(os.path.join(VERIF, 'witness', 'Cargo.toml.in')) as f:
            toml = f.read().replace('@REPO@', os.path.realpath(repo))
        with open(os.path.join(wdir, 'Cargo.toml'), 'w') as f:
            f.write(toml)
        shutil.copy(os.path.join(VERIF, 'witness', 'src', 'lib.rs'), os.path.join(wdir, 'src', 'lib.rs'))
        lock = os.path.join(repo, 'Cargo.lock')
        if os.path.exists(lock):
            shutil.copy(lock, os.path.join(wdir, 'Cargo.lock'))
        env = dict(os.environ, CARGO_NET_OFFLINE='true', CARGO_TARGET_DIR=os.path.join(CACHE, 'target-witness'))
        env.pop('RUSTC_WORKSPACE_WRAPPER', None)
        with open(os.path.join(CACHE, 'lock-witness'), 'w') as lk:
            fcntl.flock(lk, fcntl.LOCK_EX)
            r = subprocess.run(['cargo', '+nightly', 'test', '--doc', '--offline'], cwd=wdir, capture_output=True, text=True, env=env)
        out = r.stdout + r.stderr
        results = {}
        for m in re.finditer(r'^test (src/lib\.rs - (\S+) \(line (\d+)\)(?: - [a-z_ ]+)*) \.\.\. (\w+)', out, re.M):
            results[f'{m.group(2)}@{m.group(3)}'] = m.group(4)
        return r.returncode == 0, results, out[-3000:]
    finally:
        shutil.rmtree(wdir, ignore_errors=True)
