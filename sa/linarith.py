"""Linear entailment over canonical terms (the polyhedral fragment of the analysis).

Every root of a linear form is a non-negative integer (lengths, counts, durations).  A set of facts `f <= 0` is
*infeasible* when Fourier-Motzkin elimination over the rationals derives `k <= 0` for a constant k > 0; rational
infeasibility implies integer infeasibility, so every "proved" answer is sound and every failure is "not proved".

Facts about integer division are added for the roots that occur:  for q = a / c and m = (a / c) * c with c >= 1
    0 <= a - m <= c - 1,        m = c * q (kept as the opaque root m),
and  a % c  is rewritten to  a - m.

`equal_under(t1, t2, assumptions)` decides that two piecewise-linear terms denote the same function: both are split
into guarded linear cases (conditionals, min, max, pos), and every pair of cases is either jointly infeasible or has
provably equal values."""

from . import term as T


# ------------------------------------------------------------------ constraints

from math import gcd

_CACHE = {}


def infeasible(les, max_rows=3000):
    """les: linear forms known to be <= 0.  True iff they (plus root >= 0 for every root) have no rational solution.
    Fourier-Motzkin elimination on integer rows (coefficients.., constant), each meaning  c.x + k <= 0."""
    lins = [T.as_lin(l) for l in les]
    ck = frozenset(lins)
    if ck in _CACHE:
        return _CACHE[ck]
    index = {}
    for l in lins:
        for r, _ in l[2]:
            if r not in index:
                index[r] = len(index)
    n = len(index)

    def norm(row):
        g = 0
        for v in row:
            g = gcd(g, abs(v))
        if g > 1:
            row = tuple(v // g for v in row)
        return row

    rows = set()
    for l in lins:
        row = [0] * (n + 1)
        for r, c in l[2]:
            row[index[r]] = c
        row[n] = l[1]
        rows.add(norm(tuple(row)))
    for i in range(n):
        row = [0] * (n + 1)
        row[i] = -1
        rows.add(tuple(row))
    remaining = list(range(n))
    result = None
    while result is None:
        for row in rows:
            if row[n] > 0 and not any(row[:n]):
                result = True
                break
        if result is not None:
            break
        if not remaining:
            result = False
            break
        best, cost = None, None
        for i in remaining:
            p_ = sum(1 for row in rows if row[i] > 0)
            q_ = sum(1 for row in rows if row[i] < 0)
            if best is None or p_ * q_ < cost:
                best, cost = i, p_ * q_
        i = best
        remaining.remove(i)
        pos = [row for row in rows if row[i] > 0]
        neg = [row for row in rows if row[i] < 0]
        new = {row for row in rows if row[i] == 0}
        for pr in pos:
            a_ = pr[i]
            for nr in neg:
                b_ = -nr[i]
                new.add(norm(tuple(x * b_ + y * a_ for x, y in zip(pr, nr))))
        if len(new) > max_rows:
            result = False      # give up: not proved
            break
        rows = new
    if len(_CACHE) < 200000:
        _CACHE[ck] = result
    return result


def entails_le0(facts, goal):
    """facts |= goal <= 0   (integers: the negation is goal >= 1)"""
    return infeasible(list(facts) + [T.sub(T.const(1), T.as_lin(goal))])


def entails_eq0(facts, goal):
    return entails_le0(facts, goal) and entails_le0(facts, T.neg(T.as_lin(goal)))


# ------------------------------------------------------------------ division / product facts

def _eq(a, b):
    return [T.sub(a, b), T.sub(b, a)]


def _collect(terms):
    divs, muls, rems = [], [], []
    for t in terms:
        for x in T.subterms(t):
            if isinstance(x, tuple) and x:
                if x[0] == 'div' and x not in divs:
                    divs.append(x)
                elif x[0] == 'mul' and x not in muls:
                    muls.append(x)
                elif x[0] == 'rem' and x not in rems:
                    rems.append(x)
    return divs, muls, rems


def _cofactors(q, muls, extra=()):
    """the other factors y of every product q * y that occurs"""
    out = [T.as_lin(e) for e in extra]
    for m in muls:
        for f, g in ((m[1], m[2]), (m[2], m[1])):
            if T.as_lin(f) == q and T.as_lin(g) not in out:
                out.append(T.as_lin(g))
    return out


def _decompose(a, c, facts):
    """a = S * c + rest with rest >= 0 provable:  -> (S, rest) where S is linear in roots u with u * c occurring in a
    (and in the constant multiples of c itself), or None when nothing can be taken out"""
    a, c = T.as_lin(a), T.as_lin(c)
    S = T.const(0)
    rest = a
    cr = T.single_root(c) if T.single_root(c) is not None else None
    for r, k in a[2]:
        if isinstance(r, tuple) and r and r[0] == 'mul':
            for f, g in ((r[1], r[2]), (r[2], r[1])):
                if T.as_lin(g) == c:
                    S = T.add(S, T.scale(T.as_lin(f), k))
                    rest = T.sub(rest, T.scale(T.root(r), k))
                    break
    n = 0
    if cr is not None:
        n = dict(a[2]).get(cr, 0)
    elif T.is_const(c) and c[1] > 0:
        n = a[1] // c[1]
    # take out as many whole multiples of c as keeps the rest provably non-negative
    for take in range(n, n - 3, -1):
        rr = T.sub(rest, T.scale(c, take))
        if entails_le0(facts, T.neg(rr)):
            SS = T.add(S, T.const(take))
            if SS == T.const(0):
                return None
            return SS, rr
    return None


def closure(base, terms, steps=False, rounds=4):
    """arithmetic facts about the quotients / products / remainders occurring in `terms` (and in the facts derived on the
    way), as a list of alternatives: each alternative is base + linear facts; together they cover every integer model."""
    facts = list(base)
    divs, muls, rems = _collect(list(terms) + facts)
    done = []
    for _ in range(rounds):
        progress = False
        for x in list(divs):
            if x in done:
                continue
            a, c = T.as_lin(x[1]), T.as_lin(x[2])
            if not entails_le0(facts, T.sub(T.const(1), c)) or not entails_le0(facts, T.neg(a)):
                continue        # needs c >= 1 and a >= 0 (unsigned arithmetic: the program evaluates a / c only then)
            done.append(x)
            progress = True
            q = T.root(x)
            m = T.mul(q, c)
            facts += [T.sub(q, a), T.sub(m, a), T.add(T.sub(T.sub(a, m), c), T.const(1))]
            dec = _decompose(a, c, facts)
            if dec is not None:
                S, rest = dec
                dq = T.div(rest, c)
                facts += _eq(q, T.add(S, dq))
                for y in _cofactors(q, muls, extra=(c,)):
                    total = T.mul(dq, y)
                    for r, k in S[2]:
                        total = T.add(total, T.scale(T.mul(T.root(r), y), k))
                    total = T.add(total, T.scale(y, S[1]))
                    facts += _eq(T.mul(q, y), total)
                d2, m2, _ = _collect([dq] + facts[-12:])
                for z in d2:
                    if z not in divs:
                        divs.append(z)
                for z in m2:
                    if z not in muls:
                        muls.append(z)
        for x in list(rems):
            a, c = T.as_lin(x[1]), T.as_lin(x[2])
            if x in done or not entails_le0(facts, T.sub(T.const(1), c)) or not entails_le0(facts, T.neg(a)):
                continue
            done.append(x)
            progress = True
            r = T.root(x)
            dq = T.div(a, c)
            m = T.mul(dq, c)
            facts += _eq(T.add(r, m), a) + [T.add(T.sub(r, c), T.const(1))]
            for z in _collect([dq, m])[0]:
                if z not in divs:
                    divs.append(z)
        if not progress:
            break
    # a product with a factor that is provably 0 is 0; with a factor that is provably 1 it is the other factor
    for x in muls:
        if any(entails_le0(facts, T.as_lin(g)) for g in (x[1], x[2])):
            facts.append(T.root(x))
            continue
        for f, g in ((x[1], x[2]), (x[2], x[1])):
            if entails_eq0(facts, T.sub(T.as_lin(f), T.const(1))):
                facts += _eq(T.root(x), T.as_lin(g))
                break
    alts = [facts]
    # every quotient is 0 (then so is every product with it), 1 (then q * y = y) or at least 2 (then q * y >= 2 * y)
    for x in done:
        if x[0] != 'div':
            continue
        q = T.root(x)
        ys = [y for y in _cofactors(q, muls, extra=(T.as_lin(x[2]),))]
        zero = [q] + [T.mul(q, y) for y in ys]
        one = _eq(q, T.const(1))
        many = [T.sub(T.const(2), q)]
        for y in ys:
            one += _eq(T.mul(q, y), y)
            if entails_le0(facts, T.neg(y)):
                many.append(T.sub(T.scale(y, 2), T.mul(q, y)))
        alts = [a_ + b_ for a_ in alts for b_ in (zero, one, many) if not infeasible(a_ + b_)]
        if len(alts) > 243:
            break
    if steps:
        # a / c and (a + 1) / c: the quotient stays, or grows by one (and every product q * y by y)
        for d1 in done:
            for d2 in done:
                if d1 is d2 or d1[0] != 'div' or d2[0] != 'div' or T.as_lin(d1[2]) != T.as_lin(d2[2]):
                    continue
                if T.sub(T.as_lin(d2[1]), T.as_lin(d1[1])) != T.const(1):
                    continue
                q1, q2 = T.root(d1), T.root(d2)
                ys = _cofactors(q1, muls, extra=(T.as_lin(d1[2]),))
                for y in _cofactors(q2, muls):
                    if y not in ys:
                        ys.append(y)
                same = _eq(q2, q1)
                step = _eq(q2, T.add(q1, T.const(1)))
                for y in ys:
                    same += _eq(T.mul(q2, y), T.mul(q1, y))
                    step += _eq(T.mul(q2, y), T.add(T.mul(q1, y), y))
                alts = [a_ + b_ for a_ in alts for b_ in (same, step)]
    # first hit of a search: first(enumerate(v), |(i, x)| P(x)) is (0, v[0]) when P(v[0]) is entailed
    hits = []
    for t in list(terms) + facts:
        for x in T.subterms(t):
            if isinstance(x, tuple) and len(x) == 4 and x[0] == 'case' and x[2] == 'Some' and isinstance(x[1], tuple) and x[1] and x[1][0] == 'first' \
                    and isinstance(x[1][1], tuple) and x[1][1][0] == 'enumerate' and isinstance(x[1][1][1], tuple) and x[1][1][1][0] == 'elems' \
                    and x[1][2][0] == 'lam' and x not in hits:
                hits.append(x)
    if hits:
        out = []
        for f in alts:
            extra = []
            for x in hits:
                v = x[1][1][1][1]
                d = x[1][2][1]
                first_elem = T.root(('idx', v, T.const(0)))
                P0 = T.substitute(x[1][2][2], {('f', ('bv', d), '1'): first_elem})
                if T.mentions(P0, ('bv', d)):
                    continue
                c = _conds(P0)
                if c is not None and len(c) == 1 and all(entails_le0(f, g) for g in c[0]):
                    extra += _eq(T.root(('f', x, '0')), T.const(0)) + _eq(T.root(('f', x, '1')), first_elem)
            out.append(f + extra)
        alts = out
    # congruence for indexing: v[a] = v[b] when a = b is entailed
    idxs = []
    for t in list(terms) + facts:
        for x in T.subterms(t):
            if isinstance(x, tuple) and x and x[0] == 'idx' and len(x) == 3 and x not in idxs and T.is_lin(T.as_lin(x[2])):
                idxs.append(x)
    if len(idxs) > 1:
        out = []
        for f in alts:
            extra = []
            for i, x in enumerate(idxs):
                for y in idxs[i + 1:]:
                    if x[1] == y[1] and entails_eq0(f, T.sub(T.as_lin(x[2]), T.as_lin(y[2]))):
                        extra += _eq(T.root(x), T.root(y))
            out.append(f + extra)
        alts = out
    return alts


def holds_between(cases1, cases2, assumptions, lo, hi, steps=False):
    """for every jointly feasible pair of cases:  lo <= v2 - v1 <= hi  (a bound that is None is not required)
       -> (True, number of feasible combinations examined) / (False, witness (g1, v1, g2, v2))"""
    n = 0
    for g1, v1 in cases1:
        for g2, v2 in cases2:
            base = list(assumptions) + g1 + g2
            if infeasible(base):
                continue
            for facts in closure(base, [v1, v2], steps=steps):
                if infeasible(facts):
                    continue
                n += 1
                d = T.sub(v2, v1)
                if T.is_const(d) and (lo is None or d[1] >= lo) and (hi is None or d[1] <= hi):
                    continue
                if lo is not None and not entails_le0(facts, T.sub(T.const(lo), d)):
                    return False, (g1, v1, g2, v2)
                if hi is not None and not entails_le0(facts, T.sub(d, T.const(hi))):
                    return False, (g1, v1, g2, v2)
    return True, n


def equal_under(cases1, cases2, assumptions):
    return holds_between(cases1, cases2, assumptions, 0, 0)


def times(v, y):
    """the product of the linear form v with y, distributed over v's roots"""
    v, y = T.as_lin(v), T.as_lin(y)
    acc = T.scale(y, v[1])
    for r, c in v[2]:
        acc = T.add(acc, T.scale(T.mul(T.root(r), y), c))
    return acc


def holds_all(cases, assumptions, goals, steps=False, extra_terms=()):
    """for every feasible case (g, v): every form of goals(v) is >= 0   -> (True, n) / (False, (g, v, [], goal))"""
    n = 0
    for g, v in cases:
        base = list(assumptions) + g
        if infeasible(base):
            continue
        gl = [T.as_lin(x) for x in goals(v)]
        for facts in closure(base, [v] + gl + list(extra_terms), steps=steps):
            if infeasible(facts):
                continue
            n += 1
            for x in gl:
                if not entails_le0(facts, T.neg(x)):
                    return False, (g, v, [], x)
    return True, n


# ------------------------------------------------------------------ guarded linear cases

def _conds(c):
    """a boolean term as a list of alternative conjunctions of le0-forms (DNF), or None if not linear"""
    if c == T.TRUE:
        return [[]]
    if c == T.FALSE:
        return []
    if not isinstance(c, tuple) or not c:
        return None
    if c[0] == 'le0':
        return [[T.as_lin(c[1])]]
    if c[0] == 'eq0':
        return [[T.as_lin(c[1]), T.neg(T.as_lin(c[1]))]]
    if c[0] == 'not':
        inner = c[1]
        if isinstance(inner, tuple) and inner and inner[0] == 'eq0':
            l = T.as_lin(inner[1])
            return [[T.sub(T.const(1), l)], [T.add(T.const(1), l)]]
        if isinstance(inner, tuple) and inner and inner[0] == 'le0':
            return [[T.sub(T.const(1), T.as_lin(inner[1]))]]
        return None
    if c[0] == 'and':
        acc = [[]]
        for x in c[1]:
            d = _conds(x)
            if d is None:
                return None
            acc = [a + b for a in acc for b in d]
        return acc
    if c[0] == 'or':
        acc = []
        for x in c[1]:
            d = _conds(x)
            if d is None:
                return None
            acc.extend(d)
        return acc
    return None


SPLITTABLE = ('ite', 'pos', 'min', 'max', 'ind')


def split(t, fuel=64):
    """piecewise-linear term -> [(list of le0-forms, linear value)] ; None if something is not piecewise linear"""
    t = T.as_lin(t)
    for r, c in t[2]:
        if not isinstance(r, tuple) or not r:
            continue
        rest = T.sub(t, T.scale(T.root(r), c))
        alts = None
        if r[0] == 'ite':
            d = _conds(r[1])
            nd = _conds(T.tnot(r[1]))
            if d is None or nd is None:
                return None
            alts = [(g, r[2]) for g in d] + [(g, r[3]) for g in nd]
        elif r[0] == 'ind':
            d = _conds(r[1])
            nd = _conds(T.tnot(r[1]))
            if d is None or nd is None:
                return None
            alts = [(g, T.const(1)) for g in d] + [(g, T.const(0)) for g in nd]
        elif r[0] == 'pos':
            x = T.as_lin(r[1])
            alts = [([T.neg(x)], x), ([x], T.const(0))]                     # x >= 0 -> x ; x <= 0 -> 0
        elif r[0] in ('min', 'max'):
            alts = []
            for i, a in enumerate(r[1]):
                g = []
                for j, b in enumerate(r[1]):
                    if i != j:
                        g.append(T.sub(a, b) if r[0] == 'min' else T.sub(b, a))   # a <= b  /  a >= b
                alts.append((g, a))
        elif r[0] == 'mul':
            # a product whose factor is piecewise: split the factor
            for f, g_ in ((r[1], r[2]), (r[2], r[1])):
                if any(isinstance(q, tuple) and q and q[0] in SPLITTABLE for q, _ in T.as_lin(f)[2]):
                    sf = split(f, fuel - 1)
                    if sf is None:
                        return None
                    alts = [(gg, T.mul(vv, g_)) for gg, vv in sf]
                    break
        if alts is None:
            continue
        out = []
        for g, v in alts:
            if fuel <= 0:
                return None
            sub = split(T.add(rest, T.scale(T.as_lin(v), c)), fuel - 1)
            if sub is None:
                return None
            out.extend((g + g2, v2) for g2, v2 in sub)
        return out
    return [([], t)]


def _expand_guards(guards, fuel=64):
    """guards (forms <= 0) that mention conditionals / min / max / pos are themselves split: -> list of guard lists"""
    for i, g in enumerate(guards):
        if any(isinstance(r, tuple) and r and r[0] in SPLITTABLE for r, _ in T.as_lin(g)[2]):
            if fuel <= 0:
                return None
            sg = split(g)
            if sg is None:
                return None
            out = []
            for g2, v2 in sg:
                sub = _expand_guards(guards[:i] + g2 + [v2] + guards[i + 1:], fuel - 1)
                if sub is None:
                    return None
                out.extend(sub)
            return out
    return [guards]


def cases_of(pc_values):
    """[(pc tuple of boolean terms, value term)] -> [(le0-forms, linear value)] or None"""
    out = []
    for pc, v in pc_values:
        d = _conds(T.tand(*pc) if pc else T.TRUE)
        if d is None:
            return None
        sv = split(v)
        if sv is None:
            return None
        for g in d:
            for g2, v2 in sv:
                ex = _expand_guards(g + g2)
                if ex is None:
                    return None
                for gg in ex:
                    out.append((gg, v2))
    return out


# ---------------------------------------------------------------- equality of two terms that differ in piecewise-linear parts

_LINEAR_BOOL = ('and', 'or', 'not', 'le0', 'eq0', 'true', 'false')


def _opaque_atoms(t):
    """the non-linear atoms of the conditions of t (pattern tests, pointer equality, float comparisons, boolean calls):
    what stands in condition position -- of a conditional, an indicator, below and / or / not -- and is not a linear test"""
    out = []

    def cond(c):
        if not isinstance(c, tuple) or not c or c in (T.TRUE, T.FALSE):
            return
        if c[0] in ('and', 'or'):
            for x in c[1]:
                cond(x)
        elif c[0] == 'not':
            cond(c[1])
        elif c[0] in ('le0', 'eq0'):
            walk(c[1])
        elif c not in out:
            out.append(c)

    def walk(x):
        if not isinstance(x, tuple) or not x:
            return
        if T.is_lin(x):
            for r, _ in x[2]:
                walk(r)
            return
        if x[0] == 'ite' and len(x) == 4:
            cond(x[1]); walk(x[2]); walk(x[3])
            return
        if x[0] == 'ind' and len(x) == 2:
            cond(x[1])
            return
        if x[0] in ('and', 'or', 'not', 'le0', 'eq0'):
            cond(x)
            return
        if x[0] in ('lam', 'lam2'):
            return      # conditions below a binder talk about other values
        for y in x:
            walk(y)
    walk(t)
    return out


def _root_equal(r1, r2, assumptions, fuel):
    """two atomic roots (a table entry, a call, an aggregate ..) are the same value: same constructor, equal arguments"""
    if r1 == r2:
        return True
    if not (isinstance(r1, tuple) and isinstance(r2, tuple) and r1 and r2 and r1[0] == r2[0] and len(r1) == len(r2)) or r1[0] in SPLITTABLE:
        return False
    return all(_terms_equal(x, y, assumptions, fuel) if isinstance(x, tuple) and isinstance(y, tuple) else x == y for x, y in zip(r1, r2))


def terms_equal(t1, t2, assumptions=(), fuel=5):
    """(see _terms_equal) -- terms in canonical print form (single roots written bare) are first rewritten with linear
    operands, the form the arithmetic lemmas are stated over"""
    return _terms_equal(T.substitute(t1, {}), T.substitute(t2, {}), [T.as_lin(T.substitute(a, {})) for a in assumptions], fuel)


def _terms_equal(t1, t2, assumptions=(), fuel=5):
    """t1 and t2 denote the same value for every valuation of their roots (roots are non-negative integers): identical, or
    identical up to sub-terms that are piecewise linear and provably equal case by case.  The comparison descends through
    equal constructors; where the two differ, opaque boolean atoms (pattern tests, pointer comparisons) are decided by
    Shannon expansion -- both sides are compared with the atom true and with it false -- and the rest by case splitting."""
    if t1 == t2:
        return True
    u1, u2 = T.unroot(t1), T.unroot(t2)
    if u1 == u2:
        return True
    numeric1 = T.is_lin(t1) or (isinstance(u1, tuple) and u1 and u1[0] in SPLITTABLE)
    numeric2 = T.is_lin(t2) or (isinstance(u2, tuple) and u2 and u2[0] in SPLITTABLE)
    if not (numeric1 or numeric2) and isinstance(u1, tuple) and isinstance(u2, tuple) and len(u1) == len(u2) and u1 and u1[0] == u2[0]:
        return all(_terms_equal(x, y, assumptions, fuel) if isinstance(x, tuple) and isinstance(y, tuple) else x == y for x, y in zip(u1, u2))
    if not (numeric1 or numeric2):
        return False
    if T.is_bool(u1) or T.is_bool(u2):
        return False
    if fuel > 0:
        atoms = sorted(set(_opaque_atoms(t1)) | set(_opaque_atoms(t2)), key=repr)
        # innermost first: an atom that contains no other atom
        atoms = [a for a in atoms if not any(b != a and any(y == b for y in T.subterms(a)) for b in atoms)] or atoms
        if atoms:
            a = atoms[0]
            return all(_terms_equal(T.substitute(t1, {a: v}), T.substitute(t2, {a: v}), assumptions, fuel - 1) for v in (T.TRUE, T.FALSE))
    c1, c2 = cases_of([((), T.as_lin(t1))]), cases_of([((), T.as_lin(t2))])
    if c1 is not None and c2 is not None:
        try:
            r = equal_under(c1, c2, list(assumptions))
            if r and r[0]:
                return True
        except Exception:
            pass
    # linear forms over different roots: equal if the roots pair up as equal terms with equal coefficients
    l1, l2 = T.as_lin(t1), T.as_lin(t2)
    if l1[1] == l2[1] and len(l1[2]) == len(l2[2]):
        rest = list(l2[2])
        for r, c in l1[2]:
            hit = next((j for j, (r2, c2_) in enumerate(rest) if c2_ == c and _root_equal(r, r2, assumptions, fuel)), None)
            if hit is None:
                return False
            rest.pop(hit)
        return True
    return False


def selftest():
    """the equality prover must refuse what is not equal (a prover that says yes to everything would silence the fall-backs
    that rely on it): run before every check; -> list of failed expectations"""
    x = T.root(('bv', 1))
    a = ('ptreq', ('bv', 0), ('p', 2))
    p3 = T.root(('p', 3))
    cases = [
        (False, T.pos(T.sub(x, T.const(1))), T.pos(T.sub(x, T.const(2)))),
        (False, T.ite(a, x, T.const(0)), T.ite(T.tnot(a), x, T.const(0))),
        (False, ('map', ('p', 1), ('lam', 0, T.add(x, T.const(1)))), ('map', ('p', 1), ('lam', 0, x))),
        (True, ('map', ('p', 1), ('lam', 0, T.tmax(x, T.const(0)))), ('map', ('p', 1), ('lam', 0, x))),
        (False, T.tmin(x, p3), T.tmax(x, p3)),
        (True, T.root(('idx', ('p', 1), T.tmax(x, T.const(0)))), T.root(('idx', ('p', 1), x))),
        (False, T.root(('idx', ('p', 1), T.add(x, T.const(1)))), T.root(('idx', ('p', 1), x))),
        (True, T.pos(T.sub(T.add(x, T.ind(T.tnot(a))), T.const(1))), T.ite(T.tnot(a), x, T.pos(T.sub(x, T.const(1))))),
        (False, T.pos(T.sub(T.add(x, T.ind(a)), T.const(1))), T.ite(T.tnot(a), x, T.pos(T.sub(x, T.const(1))))),
        (True, T.ite(T.cmp('Ge', T.tmin(x, p3), T.const(1)), x, T.const(0)), T.ite(T.tand(T.cmp('Ge', x, T.const(1)), T.cmp('Ge', p3, T.const(1))), x, T.const(0))),
        (False, T.ite(T.cmp('Ge', T.tmin(x, p3), T.const(1)), x, T.const(0)), T.ite(T.cmp('Ge', x, T.const(1)), x, T.const(0))),
    ]
    bad = []
    for i, (want, t1, t2) in enumerate(cases):
        if bool(terms_equal(t1, t2)) != want:
            bad.append(f'terms_equal case {i}: expected {want}')
    if not infeasible([T.as_lin(T.sub(T.const(1), x)), T.as_lin(x)]):      # 1 - x <= 0 and x <= 0
        bad.append('infeasible: 1 <= x <= 0 not refuted')
    if infeasible([T.as_lin(T.sub(T.const(1), x))]):
        bad.append('infeasible: x >= 1 refuted')
    return bad
