"""Directional comparison of canonical terms.

cmp(actual, expected) answers, from the *shape* of the two terms and a table of
monotonicity axioms, whether `actual` is always equal to, never larger than
('under'), never smaller than ('over') `expected`, or whether no such statement
can be made ('mixed').  All roots are non-negative integers (unsigned time,
service and counts).
"""

from . import term as T

EQ, UNDER, OVER, MIXED = 'eq', 'under', 'over', 'mixed'

# variance of each argument (index 0 = receiver); '=' means must be identical
AXIOMS = {
    'demand::RequestBound::service_needed': ('=', '+'),
    'demand::RequestBound::service_needed_by_n_jobs': ('=', '+', '+'),
    'demand::AggregateRequestBound::service_needed_by_n_jobs_per_component': ('=', '+', '+'),
    'demand::RequestBound::least_wcet_in_interval': ('=', '-'),
    'arrival::ArrivalBound::number_arrivals': ('=', '+'),
    'wcet::JobCostModel::cost_of_jobs': ('=', '+'),
    'wcet::JobCostModel::least_wcet': ('=', '-'),
    'supply::SupplyBound::provided_service': ('=', '+'),
    'supply::SupplyBound::service_time': ('=', '+'),
    'arrival::divide_with_ceil': ('+', '-'),
}


def combine(*ds):
    out = EQ
    for d in ds:
        if d == EQ:
            continue
        if out == EQ:
            out = d
        elif out != d:
            return MIXED
    return out


def flip(d):
    return {UNDER: OVER, OVER: UNDER}.get(d, d)


def signed(d, c):
    return d if c > 0 else flip(d)


def head(r):
    """what must agree for two roots to be comparable"""
    if not isinstance(r, tuple) or not r:
        return r
    if r[0] == 'call':
        ax = AXIOMS.get(r[1])
        fixed = tuple(a for i, a in enumerate(r[2]) if ax is None or i >= len(ax) or ax[i] == '=')
        return ('call', r[1], fixed if ax else None)
    if r[0] in ('sum', 'maxof', 'minof', 'optor', 'pos', 'min', 'max', 'try', 'ind', 'count'):
        return (r[0],)
    if r[0] == 'match':
        return ('match', r[1])
    if r[0] == 'ite':
        return ('ite', r[1])
    return r


class Cmp:
    def __init__(self):
        self.notes = []

    def note(self, s):
        if s not in self.notes:
            self.notes.append(s)

    def cmp(self, a, e):
        """numeric / general terms"""
        if a == e:
            return EQ
        ra, re_ = T.unroot(a), T.unroot(e)
        # min{..} <= each of its operands <= max{..}
        if isinstance(re_, tuple) and re_ and re_[0] in ('min', 'max') and T.as_lin(a) in re_[1]:
            self.note(f'{T.show(a)} instead of {T.show(re_)}')
            return OVER if re_[0] == 'min' else UNDER
        if isinstance(ra, tuple) and ra and ra[0] in ('min', 'max') and T.as_lin(e) in ra[1]:
            self.note(f'{T.show(ra)} instead of {T.show(e)}')
            return UNDER if ra[0] == 'min' else OVER
        # pos(b) = max(0, b)
        if isinstance(re_, tuple) and re_ and re_[0] == 'pos' and not (isinstance(ra, tuple) and ra and ra[0] == 'pos'):
            d1 = self.cmp(a, re_[1])
            la = T.as_lin(a)
            if d1 in (EQ, OVER) and la[1] >= 0 and all(c >= 0 for _, c in la[2]):
                self.note(f'{T.show(a)[:80]} instead of the saturating {T.show(re_)[:80]}')
                return OVER
            if d1 == UNDER:
                return UNDER
        if isinstance(ra, tuple) and ra and ra[0] == 'pos' and not (isinstance(re_, tuple) and re_ and re_[0] == 'pos'):
            d1 = self.cmp(ra[1], e)
            le = T.as_lin(e)
            if d1 in (EQ, OVER):
                return OVER if d1 == OVER else OVER
            if d1 == UNDER and le[1] >= 0 and all(c >= 0 for _, c in le[2]):
                return UNDER
        # one branch of an expected conditional, unconditionally
        if isinstance(re_, tuple) and re_ and re_[0] == 'ite' and not (isinstance(ra, tuple) and ra and ra[0] == 'ite'):
            if T.as_lin(a) == T.as_lin(re_[2]):
                self.note(f'the branch {T.show(re_[2])[:60]} is taken unconditionally (condition {T.show(re_[1])[:60]} dropped)')
                return self.cmp(re_[2], re_[3])
            if T.as_lin(a) == T.as_lin(re_[3]):
                self.note(f'the branch {T.show(re_[3])[:60]} is taken unconditionally (condition {T.show(re_[1])[:60]} dropped)')
                return self.cmp(re_[3], re_[2])
        if T.is_lin(a) or T.is_lin(e):
            return self.cmp_lin(T.as_lin(a), T.as_lin(e))
        return self.cmp_root(a, e)

    def cmp_lin(self, a, e):
        d = T.sub(a, e)
        if d == T.const(0):
            return EQ
        res = EQ
        k = T.lin_const(d)
        rs = T.lin_roots(d)
        posr = [(r, c) for r, c in rs.items() if c > 0]
        negr = [(r, c) for r, c in rs.items() if c < 0]
        used = set()
        for rp, cp in list(posr):
            for j, (rn, cn) in enumerate(negr):
                if j in used or cn != -cp:
                    continue
                if head(rp) == head(rn) and isinstance(rp, tuple):
                    ca_p, ce_p = T.lin_roots(a).get(rp, 0), T.lin_roots(e).get(rp, 0)
                    ca_n, ce_n = T.lin_roots(a).get(rn, 0), T.lin_roots(e).get(rn, 0)
                    if ca_p == cp and ce_p == 0 and ce_n == cp and ca_n == 0:
                        # both forms add the root: actual adds rp, expected adds rn
                        rd = self.cmp_root(rp, rn)
                    elif ce_p == -cp and ca_p == 0 and ca_n == -cp and ce_n == 0:
                        # both forms subtract the root: actual subtracts rn, expected subtracts rp
                        rd = flip(self.cmp_root(rn, rp))
                    else:
                        continue
                    res = combine(res, rd)
                    used.add(j)
                    posr.remove((rp, cp))
                    break
        negr = [x for j, x in enumerate(negr) if j not in used]
        for r, c in posr:
            self.note(f'actual has +{c}*{T.show(r)} more than expected')
            res = combine(res, OVER)
        for r, c in negr:
            self.note(f'actual has {c}*{T.show(r)} less than expected')
            res = combine(res, UNDER)
        if k > 0:
            self.note(f'constant is {k} larger than expected')
            res = combine(res, OVER)
        elif k < 0:
            self.note(f'constant is {-k} smaller than expected')
            res = combine(res, UNDER)
        return res

    def cmp_root(self, a, e):
        if a == e:
            return EQ
        if not (isinstance(a, tuple) and isinstance(e, tuple) and a and e) or a[0] != e[0]:
            self.note(f'{T.show(a)} is not comparable with {T.show(e)}')
            return MIXED
        tag = a[0]
        if tag == 'call':
            if a[1] != e[1] or len(a[2]) != len(e[2]):
                self.note(f'different callee {a[1]} vs {e[1]}')
                return MIXED
            ax = AXIOMS.get(a[1])
            res = EQ
            for i, (x, y) in enumerate(zip(a[2], e[2])):
                if x == y:
                    continue
                v = ax[i] if ax and i < len(ax) else '='
                if v == '=':
                    self.note(f'argument {i} of {a[1].split("::")[-1]} differs: {T.show(x)} vs {T.show(y)}')
                    return MIXED
                d = self.cmp(x, y)
                if d != EQ:
                    self.note(f'argument {i} of {a[1].split("::")[-1]}: {T.show(x)} vs expected {T.show(y)}')
                res = combine(res, d if v == '+' else flip(d))
            return res
        if tag in ('pos', 'try'):
            return self.cmp(a[1], e[1])
        if tag in ('min', 'max'):
            A, E = set(a[1]), set(e[1])
            if A == E:
                return EQ
            more, fewer = (UNDER, OVER) if tag == 'min' else (OVER, UNDER)
            if E < A:
                self.note(f'{tag} over additional operand(s) {[T.show(x) for x in A - E]}')
                return more
            if A < E:
                self.note(f'{tag} lacks operand(s) {[T.show(x) for x in E - A]}')
                return fewer
            da, de = list(A - E), list(E - A)
            if len(da) == 1 and len(de) == 1:
                return self.cmp(da[0], de[0])
            return MIXED
        if tag in ('sum', 'maxof', 'minof', 'count'):
            elems, vals = self.cmp_iter(a[1], e[1])
            if elems == MIXED or vals == MIXED:
                return MIXED
            ed = {'eq': EQ, 'fewer': UNDER, 'more': OVER}[elems]
            if tag == 'minof':
                ed = flip(ed)
            return combine(ed, vals)
        if tag == 'optor':
            return combine(self.cmp_root(T.unroot(a[1]), T.unroot(e[1])), self.cmp(a[2], e[2]))
        if tag == 'ind':
            b = self.cmp_bool(a[1], e[1])
            return {'eq': EQ, 'stronger': UNDER, 'weaker': OVER}.get(b, MIXED)
        if tag == 'lam':
            if a[1] != e[1]:
                return self.cmp(T.norm_bv(a), T.norm_bv(e)) if T.norm_bv(a) != a or T.norm_bv(e) != e else MIXED
            return self.cmp(a[2], e[2])
        if tag in ('ok', 'some'):
            return self.cmp(a[1], e[1])
        if tag == 'match':
            if a[1] != e[1] or len(a[2]) != len(e[2]):
                self.note(f'match on {T.show(a[1])} vs {T.show(e[1])}')
                return MIXED
            res = EQ
            for x, y in zip(a[2], e[2]):
                if x[0] != y[0] or x[1] != y[1]:
                    self.note(f'match arm {x[0]} vs {y[0]}')
                    return MIXED
                d = self.cmp(x[2], y[2])
                if d != EQ:
                    self.note(f'in match arm {str(x[0]).split("::")[-1]}')
                res = combine(res, d)
            return res
        if tag == 'ite':
            if a[1] != e[1]:
                self.note(f'condition {T.show(a[1])} vs expected {T.show(e[1])}')
                return MIXED
            return combine(self.cmp(a[2], e[2]), self.cmp(a[3], e[3]))
        self.note(f'{T.show(a)} differs from {T.show(e)}')
        return MIXED

    def cmp_bool(self, a, e):
        if a == e:
            return 'eq'
        if isinstance(a, tuple) and isinstance(e, tuple) and a[0] == 'le0' and e[0] == 'le0':
            d = self.cmp_lin(a[1], e[1])
            # a: x <= 0, e: y <= 0 ; x >= y  => a implies e => a stronger
            return {EQ: 'eq', OVER: 'stronger', UNDER: 'weaker'}.get(d, 'mixed')
        if isinstance(a, tuple) and isinstance(e, tuple) and a[0] == 'and' or (isinstance(e, tuple) and e[0] == 'and'):
            A = set(a[1]) if a[0] == 'and' else {a}
            E = set(e[1]) if e[0] == 'and' else {e}
            if A == E:
                return 'eq'
            if E < A:
                self.note(f'additional conjunct(s) {[T.show(x) for x in A - E]}')
                return 'stronger'
            if A < E:
                self.note(f'missing conjunct(s) {[T.show(x) for x in E - A]}')
                return 'weaker'
            da, de = list(A - E), list(E - A)
            if len(da) == 1 and len(de) == 1:
                return self.cmp_bool(da[0], de[0])
            return 'mixed'
        if isinstance(a, tuple) and isinstance(e, tuple) and a[0] == 'or' and e[0] == 'or':
            A, E = set(a[1]), set(e[1])
            if E < A:
                return 'weaker'
            if A < E:
                return 'stronger'
        self.note(f'condition {T.show(a)} vs expected {T.show(e)}')
        return 'mixed'

    def cmp_iter(self, a, e):
        """-> (elements: eq|fewer|more|mixed, values: direction)"""
        if a == e:
            return 'eq', EQ
        if not (isinstance(a, tuple) and isinstance(e, tuple)):
            return MIXED, MIXED
        if a[0] == 'map' and e[0] == 'map':
            el, v0 = self.cmp_iter(a[1], e[1])
            if v0 != EQ:
                return MIXED, MIXED
            return el, self.cmp_root(a[2], e[2])
        if a[0] == 'filter' and e[0] == 'filter':
            el, v0 = self.cmp_iter(a[1], e[1])
            b = self.cmp_bool(a[2][2], e[2][2]) if a[2][1] == e[2][1] else 'mixed'
            el2 = {'eq': 'eq', 'stronger': 'fewer', 'weaker': 'more'}.get(b, MIXED)
            if el == 'eq':
                return el2, v0
            if el2 == 'eq':
                return el, v0
            return (el if el == el2 else MIXED), v0
        if a[0] == 'filter' and e[0] != 'filter':
            el, v0 = self.cmp_iter(a[1], e)
            self.note('additional filter stage')
            return ('fewer' if el in ('eq', 'fewer') else MIXED), v0
        if e[0] == 'filter' and a[0] != 'filter':
            el, v0 = self.cmp_iter(a, e[1])
            self.note('missing filter stage')
            return ('more' if el in ('eq', 'more') else MIXED), v0
        if a[0] in ('take', 'skip', 'step_by', 'take_while', 'skip_while') and e[0] != a[0]:
            el, v0 = self.cmp_iter(a[1], e)
            self.note(f'additional truncating stage {a[0]}')
            return ('fewer' if el in ('eq', 'fewer') else MIXED), v0
        self.note(f'iterator {T.show(a)} vs expected {T.show(e)}')
        return MIXED, MIXED


def compare(a, e):
    c = Cmp()
    d = c.cmp(T.canon(a), T.canon(e))
    return d, c.notes
