"""Loading and indexing of the facts written by rta-facts."""

import json

EXPR_CHILD_KEYS = ('f', 'recv', 'l', 'r', 'e', 'c', 't', 'scrut', 'body', 'init', 'i', 'base', 'expr', 'els', 'g')
EXPR_LIST_KEYS = ('args', 'es')


def loc(n):
    return f"{n.get('file', '?')}:{n.get('line', '?')}"


def children(n):
    """Yield (role, child expression/block node) for any expr/stmt/block node."""
    if n is None:
        return
    k = n.get('k')
    if k == 'Block':
        for s in n['stmts']:
            yield ('stmt', s)
        if n.get('expr') is not None:
            yield ('expr', n['expr'])
        return
    if k in ('Let',) and 'pat' in n and 'src' in n:  # let statement
        if n.get('init') is not None:
            yield ('init', n['init'])
        if n.get('els') is not None:
            yield ('els', n['els'])
        for g in pat_guards(n['pat']):
            yield ('patguard', g)
        return
    if k in ('Expr', 'Semi') and 'e' in n and 'ty' not in n:
        yield ('e', n['e'])
        return
    if k == 'Item':
        return
    if k == 'Match':
        yield ('scrut', n['scrut'])
        for a in n['arms']:
            if a.get('guard') is not None:
                yield ('guard', a['guard'])
            yield ('arm', a['body'])
        return
    if k == 'Struct':
        for f in n['fields']:
            yield ('field:' + f['name'], f['e'])
        if 'base' in n:
            yield ('base', n['base'])
        return
    for key in EXPR_CHILD_KEYS:
        v = n.get(key)
        if isinstance(v, dict) and 'k' in v:
            yield (key, v)
    for key in EXPR_LIST_KEYS:
        v = n.get(key)
        if isinstance(v, list):
            for i, x in enumerate(v):
                if isinstance(x, dict) and 'k' in x:
                    yield (f'{key}[{i}]', x)


def pat_guards(p):
    if p is None:
        return
    if p.get('k') == 'Guard':
        yield p['g']
    for key in ('p', 'sub'):
        if isinstance(p.get(key), dict):
            yield from pat_guards(p[key])
    for x in p.get('ps', []) or []:
        yield from pat_guards(x)
    for f in p.get('fields', []) or []:
        yield from pat_guards(f['p'])


def walk(n):
    """Pre-order walk over all expression / statement / block nodes."""
    stack = [n]
    while stack:
        x = stack.pop()
        if x is None:
            continue
        yield x
        ch = [c for _, c in children(x)]
        stack.extend(reversed(ch))


def pat_bindings(p, out=None):
    """All Bind patterns inside pattern p."""
    if out is None:
        out = []
    if p is None:
        return out
    if p.get('k') == 'Bind':
        out.append(p)
    for key in ('p', 'sub'):
        if isinstance(p.get(key), dict):
            pat_bindings(p[key], out)
    for x in p.get('ps', []) or []:
        pat_bindings(x, out)
    for f in p.get('fields', []) or []:
        pat_bindings(f['p'], out)
    return out


def is_stmt(n):
    return n.get('k') in ('Let', 'Expr', 'Semi', 'Item') and 'ty' not in n


class Body:
    """One function/method body with indexes."""

    def __init__(self, raw, crate):
        self.raw = raw
        self.crate = crate
        self.path = raw['path']
        self.kind = raw['kind']
        self.file = raw.get('file')
        self.line = raw.get('line')
        self.mac = raw.get('mac')
        self.params = raw['params']
        self.body = raw['body']
        self.parent = {}      # id(node) -> parent node
        self.role = {}        # id(node) -> role within parent
        self.binders = {}     # binding id -> dict(kind=..., node=..., pat=...)
        self.closures = []    # closure nodes
        self.nodes = []
        self._index()

    def _index(self):
        nid = 0
        for i, p in enumerate(self.params):
            for b in pat_bindings(p):
                self.binders[b['id']] = dict(kind='param', index=i, pat=p, bind=b, owner=None)
        stack = [(self.body, None, 'root')]
        while stack:
            n, par, role = stack.pop()
            n['_nid'] = nid
            nid += 1
            self.nodes.append(n)
            if par is not None:
                self.parent[id(n)] = par
                self.role[id(n)] = role
            k = n.get('k')
            if k == 'Closure':
                self.closures.append(n)
                for i, p in enumerate(n['params']):
                    for b in pat_bindings(p):
                        self.binders[b['id']] = dict(kind='cparam', index=i, pat=p, bind=b, owner=n)
            elif k == 'Let' and is_stmt(n):
                for b in pat_bindings(n['pat']):
                    self.binders[b['id']] = dict(kind='let', pat=n['pat'], bind=b, owner=n)
            elif k == 'LetExpr':
                for b in pat_bindings(n['pat']):
                    self.binders[b['id']] = dict(kind='iflet', pat=n['pat'], bind=b, owner=n)
            elif k == 'Match':
                for a in n['arms']:
                    for b in pat_bindings(a['pat']):
                        self.binders[b['id']] = dict(kind='arm', pat=a['pat'], bind=b, owner=n, arm=a)
            ch = list(children(n))
            for role_c, c in reversed(ch):
                stack.append((c, n, role_c))

    def ancestors(self, n):
        while id(n) in self.parent:
            n = self.parent[id(n)]
            yield n

    def enclosing_closures(self, n):
        return [a for a in self.ancestors(n) if a.get('k') == 'Closure']

    def walk(self):
        return iter(self.nodes)

    def find(self, pred):
        return [n for n in self.nodes if pred(n)]

    def calls_to(self, callee_suffix):
        return [n for n in self.nodes
                if n.get('k') in ('Call', 'MethodCall') and (n.get('callee') or '').endswith(callee_suffix)]


class Crate:
    def __init__(self, path):
        with open(path) as f:
            self.raw = json.load(f)
        self.name = self.raw['crate']
        self.debug_assertions = self.raw['debug_assertions']
        self.bodies = {}
        self.body_list = []
        for b in self.raw['bodies']:
            body = Body(b, self)
            # several bodies may share a path (auto_impl consts named `_`)
            key = body.path
            if key in self.bodies:
                key = f"{body.path}@{body.file}:{body.line}#{len(self.body_list)}"
            body.key = key
            self.bodies[key] = body
            self.body_list.append(body)
        self.adts = {a['path']: a for a in self.raw['adts']}
        self.impls = self.raw['impls']
        self.traits = {t['path']: t for t in self.raw['traits']}

    def body(self, path):
        b = self.bodies.get(path)
        if b is None and path and '::<impl ' in path:
            # an impl block moved to another module of the crate: same impl, same method, another module prefix
            if not hasattr(self, '_impl_alias'):
                self._impl_alias = {}
                for k in self.bodies:
                    if '::<impl ' in k:
                        self._impl_alias.setdefault(k[k.index('<impl '):], []).append(k)
            cands = self._impl_alias.get(path[path.index('<impl '):], [])
            if len(cands) == 1:
                return self.bodies[cands[0]]
        return b

    def bodies_matching(self, pred):
        return [b for b in self.body_list if pred(b)]

    def impls_of(self, trait_path):
        return [i for i in self.impls if i.get('trait') == trait_path]

    def method_body(self, impl, name):
        for it in impl['items']:
            if it['name'] == name:
                return self.bodies.get(it['path'])
        return None
