"""Positive / negative controls: the zero-expected rules are run on /verif/fixtures on every check.

A `bad_*` function that is not reported, or a `good_*` twin that is, makes the check end with an
infrastructure error (exit 2): the rule would otherwise pass -- or alarm -- vacuously."""


class Collector:
    """same recording interface as Report, keeps everything in memory"""

    def __init__(self):
        self.bads = []
        self.oks = []
        self.instances = []

    def ok(self, rule, key, where, fact, expected=None, nontrivial=True, fn=None):
        self.oks.append(dict(rule=rule, key=key, fn=fn, fact=fact))
        self.instances.append(key)

    def bad(self, rule, key, where, fact, expected=None, direction=None, fn=None, why=None):
        self.bads.append(dict(rule=rule, key=key, fn=fn, fact=fact))
        self.instances.append(key)

    def undecided_note(self, *a, **k):
        pass

    def floor(self, *a, **k):
        pass

    def rule(self, *a):
        pass

    def assume(self, *a):
        pass

    def fired_for(self, fn_suffix, rule=None):
        return [b for b in self.bads if (b['fn'] or '').endswith(fn_suffix) and (rule is None or b['rule'] == rule)]


def expect(rep, col, name, bad_fns, good_fns, rule=None):
    """every bad fn reported at least once (by `rule`), no good fn reported"""
    for f in bad_fns:
        rep.fixture(f'{name}:{f}', bool(col.fired_for(f, rule)))
    for f in good_fns:
        hits = col.fired_for(f, rule)
        rep.fixture(f'{name}:{f}:silent', not hits)
