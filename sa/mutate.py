"""Apply catalogue mutants / seeded patches to scratch copies of the tree under analysis and run checks on them.

Used by the thorough tier (sensitivity / specificity of the rules) and by tools/run_mutants.py.  A scratch copy
lives under /tmp only for the duration of one mutant and is removed together with its build output; its facts are
extracted into /verif/.cache (target dirs are shared, so only the mutated crate is re-checked)."""

import importlib.util
import json
import os
import shutil
import subprocess
import tempfile

VERIF = os.path.dirname(os.path.dirname(os.path.abspath(__file__)))


def load_catalogue():
    spec = importlib.util.spec_from_file_location('catalogue', os.path.join(VERIF, 'mutants', 'catalogue.py'))
    m = importlib.util.module_from_spec(spec)
    spec.loader.exec_module(m)
    return m.MUTANTS


def seeded():
    out = []
    root = os.path.join(VERIF, 'seeded')
    if not os.path.isdir(root):
        return out
    for d in sorted(os.listdir(root)):
        mp = os.path.join(root, d, 'meta.json')
        pp = os.path.join(root, d, 'patch.diff')
        if os.path.exists(mp) and os.path.exists(pp):
            meta = json.load(open(mp))
            props = sorted({c.split(':')[0] for c in meta.get('caught_by', [])})
            out.append(dict(id='seed-' + d, kind='breaking', patch=pp, props=props or [meta.get('breaks_property')],
                            note=meta.get('needs_to_manifest', '')))
    return out


def refactorings():
    """behaviour-preserving refactorings written by independent sub-agents: negative controls"""
    out = []
    root = os.path.join(VERIF, 'refactorings')
    if not os.path.isdir(root):
        return out
    exp = {}
    ep = os.path.join(root, 'EXPECTED.json')
    if os.path.exists(ep):
        exp = json.load(open(ep))
    for d in sorted(os.listdir(root)):
        pp = os.path.join(root, d, 'patch.diff')
        if os.path.exists(pp):
            out.append(dict(id='refactor-' + d, kind='equivalent', patch=pp, known_limit=exp.get(d),
                            note='sub-agent refactoring' + (' (known limit: ' + exp[d][:80] + ')' if d in exp else '')))
    return out


def touched_files(mut):
    if 'file' in mut:
        return {mut['file']}
    out = set()
    try:
        for line in open(mut['patch']):
            if line.startswith('+++ b/'):
                out.add(line[6:].strip())
    except OSError:
        pass
    return out


def make_copy(repo):
    d = tempfile.mkdtemp(prefix='rta-mut-')
    subprocess.run(['rsync', '-a', '--exclude', 'target', '--exclude', '.git', repo.rstrip('/') + '/', d + '/'], check=True)
    return d


def apply(mut, d):
    """-> None if applied, else a reason string"""
    if 'patch' in mut:
        r = subprocess.run(['patch', '-p1', '-s', '-f', '-i', mut['patch']], cwd=d, capture_output=True, text=True)
        return None if r.returncode == 0 else 'patch does not apply: ' + (r.stdout + r.stderr)[-200:]
    edits = [(mut['old'], mut['new'])] + list(mut.get('also', []))
    p = os.path.join(d, mut['file'])
    if not os.path.exists(p):
        return 'file not found'
    s = open(p).read()
    for old, new in edits:
        if s.count(old) != 1:
            return f'edit does not apply uniquely ({s.count(old)} matches)'
        s = s.replace(old, new)
    open(p, 'w').write(s)
    return None


def compiles(d):
    env = dict(os.environ, CARGO_NET_OFFLINE='true', CARGO_TARGET_DIR=os.path.join(VERIF, '.cache', 'target-mutcheck'))
    r = subprocess.run(['cargo', 'check', '--offline', '--quiet', '--lib'], cwd=d, capture_output=True, text=True, env=env)
    return r.returncode == 0, r.stderr[-600:]


def run_props(d, props):
    """run checks in-process on the tree at d -> {prop: (exit code, [violated rule keys])}"""
    from .main import Ctx
    from .report import Report
    from . import props as P
    os.environ['RTA_EVIDENCE_DIR'] = os.path.join(VERIF, '.cache', 'scratch-evidence')
    ctx = Ctx(d, 'quick', 0)
    out = {}
    for p in props:
        rep = Report(p, 'quick', 0)
        try:
            P.PROPS[p](ctx, rep)
            out[p] = (1 if rep.violations else (2 if rep.infra_errors else 0), sorted({v['key'] for v in rep.violations}))
        except Exception as ex:  # an analysis crash on a mutant is an infrastructure problem, not a verdict
            out[p] = (2, [f'internal error: {ex!r}'[:200]])
    return out


def evaluate(mut, repo, props_all):
    """-> dict(id, kind, status, fired={prop: keys}, expected, note)"""
    d = make_copy(repo)
    try:
        why = apply(mut, d)
        if why:
            return dict(id=mut['id'], kind=mut['kind'], status='skipped', reason=why)
        ok, err = compiles(d)
        if not ok:
            return dict(id=mut['id'], kind=mut['kind'], status='skipped', reason='does not compile: ' + err[-200:])
        if mut['kind'] == 'breaking':
            props = list(dict.fromkeys(list(mut.get('props', [])) + list(mut.get('silent', []))))
        else:
            props = props_all
        res = run_props(d, props)
        fired = {p: keys for p, (code, keys) in res.items() if code == 1}
        infra = {p: keys for p, (code, keys) in res.items() if code == 2}
        if mut['kind'] == 'breaking':
            want = [p for p in mut.get('props', [])]
            status = 'detected' if any(p in fired for p in want) else 'MISSED'
            wrongly = [p for p in mut.get('silent', []) if p in fired]
            if wrongly:
                status += '+overreport'
            return dict(id=mut['id'], kind='breaking', status=status, fired=fired, expected=want, silent_expected=mut.get('silent', []),
                        infra=infra, note=mut.get('note', ''))
        status = 'silent' if not fired else 'FALSE-ALARM'
        return dict(id=mut['id'], kind='equivalent', status=status, fired=fired, infra=infra, note=mut.get('note', ''))
    finally:
        shutil.rmtree(d, ignore_errors=True)
