"""C17: variance typing of the right-hand sides that reach fixed_point::search*.

A monotonicity type system over canonical terms: variance(t, x) is '0' (t does not depend on x), '+'
(non-decreasing), '-' (non-increasing) or '?' (not decided).  '?' is never reported as a pass and never as a
violation: it is listed as undecided.  Only '-' (a right-hand side that *decreases* when the system gets harder,
or when the fixed-point variable grows) is a violation."""

from . import term as T
from .compare import AXIOMS
from .evalr import Evaluator
from .facts import loc
from .report import AnchorMissing
from .rta_model import ANALYSES, RtaModel, A, X, is_tag, search_calls, expect, flatten_space, MAXRT, P
from . import rules_ros2 as R2

x = T.var('x')      # X = x + 1


def join(*vs):
    """variance of a sum / of a function of several arguments: '+' and '-' together are not decided"""
    out = '0'
    for v in vs:
        if v == '0':
            continue
        if out == '0':
            out = v
        elif out != v or v == 'M':
            return '?'
    return out


def branch_join(*vs):
    """variance of a choice between alternatives whose selection does not depend on the variable:
    'M' (mixed) when some alternative provably decreases while others do not"""
    s = set(vs)
    s.discard('0')
    if not s:
        return '0'
    if s == {'+'}:
        return '+'
    if s == {'-'}:
        return '-'
    if '-' in s or 'M' in s:
        return 'M'
    return '?'


def flip(v):
    return {'+': '-', '-': '+'}.get(v, v)


def times(sign, v):
    return v if sign > 0 else flip(v)


def variance(t, v):
    """variance of term t in the root v"""
    if not isinstance(t, tuple) or not T.mentions(t, v):
        return '0'
    if t == v:
        return '+'
    if T.is_lin(t):
        return join(*[times(c, variance(r, v)) for r, c in t[2]])
    tag = t[0]
    if tag == 'call':
        ax = AXIOMS.get(t[1])
        if t[1] == 'apply':
            return '?'
        vs = []
        for i, a in enumerate(t[2]):
            if not T.mentions(a, v):
                continue
            if a == v and (ax is None or i >= len(ax) or ax[i] == '='):
                return '?'
            if ax is None or i >= len(ax) or ax[i] == '=':
                return '?'
            vs.append(variance(a, v) if ax[i] == '+' else flip(variance(a, v)))
        return join(*vs)
    if tag in ('pos', 'try'):
        return variance(t[1], v)
    if tag in ('min', 'max'):
        return join(*[variance(c, v) for c in t[1]])
    if tag in ('sum', 'maxof', 'minof'):
        it = t[1]
        if is_tag(it, 'map') and not T.mentions(it[1], v):
            return variance(it[2][2], v)
        return '?'
    if tag == 'optor':
        return join(variance(T.unroot(t[1]), v), variance(t[2], v))
    if tag == 'ite':
        if T.mentions(t[1], v):
            return '?'
        return branch_join(variance(t[2], v), variance(t[3], v))
    if tag == 'match':
        if T.mentions(t[1], v):
            return '?'
        return branch_join(*[variance(a[2], v) for a in t[2]])
    if tag == 'mul':
        return join(variance(t[1], v), variance(t[2], v))
    if tag == 'lam':
        return variance(t[2], v)
    if tag in ('ok', 'some'):
        return variance(t[1], v)
    return '?'


DEMAND_CALLS = ('demand::RequestBound::service_needed', 'arrival::ArrivalBound::number_arrivals',
                'wcet::JobCostModel::cost_of_jobs')


def demand_roots(t):
    """outermost calls of the demand-side trait methods"""
    out = []

    def walk(y):
        if not isinstance(y, tuple):
            return
        if is_tag(y, 'call') and y[1] in DEMAND_CALLS:
            if y not in out:
                out.append(y)
            return
        for z in y:
            walk(z)
    walk(t)
    return out


def nonneg_body(t):
    """sum(map(coll, λ. body)) with a body that is a non-negative form: adding an element never decreases the sum"""
    res = []
    for y in T.subterms(t):
        if is_tag(y, 'sum') and is_tag(y[1], 'map') and is_tag(y[1][2], 'lam'):
            body = y[1][2][2]
            res.append((y, _nonneg(body)))
    return res


def _nonneg(body):
    body = T.unroot(body)
    if is_tag(body, 'ite'):
        return _nonneg(body[2]) and _nonneg(body[3])
    if is_tag(body, 'match'):
        return all(_nonneg(a[2]) for a in body[2])
    l = T.as_lin(body)
    return l[1] >= 0 and all(c >= 0 for _, c in l[2])


def judge_closure(rep, name, where, fn, t, params):
    """t: the right-hand side over x (X = x+1); params: {label: root} hardening parameters"""
    vx = variance(t, x)
    key = f'MONO-X:{name}'
    if vx in ('0', '+'):
        rep.ok('MONO-X', key, where, f'right-hand side is {"constant" if vx == "0" else "non-decreasing"} in the fixed-point variable', fn=fn)
    elif vx in ('-', 'M'):
        rep.bad('MONO-X', key, where, f'right-hand side decreases in the fixed-point variable: {T.show(t)[:240]}', 'non-decreasing', fn=fn,
                direction='the iteration from 1 can skip the least solution; results are not monotone in the workload',
                why='fixed_point::search assumes a monotonically increasing workload function')
    else:
        rep.undecided_note('MONO-X', key, where, f'variance in the fixed-point variable not decided for {T.show(t)[:200]}')
    for r in demand_roots(t):
        vr = variance(t, r)
        k2 = f'MONO-DEMAND:{name}:{T.show(T.canon(r))[:90]}'
        if vr == '+':
            rep.ok('MONO-DEMAND', k2, where, f'increasing {T.show(r)[:100]} never decreases the right-hand side', fn=fn)
        elif vr in ('-', 'M'):
            rep.bad('MONO-DEMAND', k2, where, f'the right-hand side decreases when {T.show(r)[:120]} grows', 'non-decreasing in every demand / arrival / cost term', fn=fn,
                    direction='a harder system (more demand) yields a smaller bound')
        elif vr == '?':
            rep.undecided_note('MONO-DEMAND', k2, where, f'variance in {T.show(r)[:100]} not decided (e.g. a difference of two costs)')
    for label, r in params.items():
        vp = variance(t, T.unroot(r))
        k3 = f'MONO-PARAM:{name}:{label}'
        if vp == '+':
            rep.ok('MONO-PARAM', k3, where, f'right-hand side is non-decreasing in {label}', fn=fn)
        elif vp in ('-', 'M'):
            rep.bad('MONO-PARAM', k3, where, f'right-hand side decreases in {label}: {T.show(t)[:200]}', f'non-decreasing in {label}', fn=fn,
                    direction='hardening the system makes the analysis more optimistic')
        elif vp == '?':
            rep.undecided_note('MONO-PARAM', k3, where, f'variance in {label} not decided')
    for s, ok in nonneg_body(t):
        k4 = f'MONO-SET:{name}:{T.show(T.canon(s[1][1]))[:60]}'
        if ok:
            rep.ok('MONO-SET', k4, where, f'every element of {T.show(s[1][1])[:60]} contributes a non-negative amount: adding an interfering task/callback never decreases the sum', fn=fn)
        else:
            rep.bad('MONO-SET', k4, where, f'an element of {T.show(s[1][1])[:60]} can contribute a negative amount: {T.show(s)[:200]}', 'non-negative contributions', fn=fn)


def limit_leaks(t, limit):
    """occurrences of the limit parameter outside the divergence-limit argument of search / search_with_offset"""
    leaks = []

    def walk(y):
        if not isinstance(y, tuple):
            return
        if is_tag(y, 'call') and y[1] in ('fixed_point::search', 'fixed_point::search_with_offset'):
            li = 1 if y[1].endswith('::search') else 2
            for i, a in enumerate(y[2]):
                if i != li:
                    walk(a)
            return
        if y == limit:
            leaks.append(y)
            return
        for z in y:
            walk(z)
    walk(t)
    return leaks


def check_limit_noninterference(rep, crate, path, limit_index, name):
    """an analysis' limit parameter reaches only the divergence-limit argument of search*: not a payload, not a closure"""
    b = crate.body(path)
    if b is None:
        rep.bad('ANCHOR', f'ANCHOR:{name}:limit', path, 'entry point not found', fn=path)
        return 0
    ev = Evaluator(crate)
    top = ev.eval_body(b)
    limit = T.param(limit_index)
    leaks = limit_leaks(top, limit)
    # closures handed to search must not capture the limit either
    from .evalr import Closure
    clo_leaks = []
    for k in sorted(ev.closures):
        c = ev.closures[k]
        args = [T.var(f'c{i}') for i in range(len(c.node['params']))]
        try:
            ct = ev.apply(('clo', k), args)
        except RecursionError:
            continue
        if limit_leaks(ct, limit):
            clo_leaks.append(loc(c.node))
    key = f'LIM-NI:{name}'
    if leaks or clo_leaks:
        rep.bad('LIM-NI', key, loc(b.raw), f'the limit parameter reaches a value other than the divergence limit of a search'
                + (f' (closures at {clo_leaks})' if clo_leaks else f': {T.show(top)[:200]}'),
                'limit only as the divergence-limit argument of search / search_with_offset', fn=path,
                direction='an Ok result can change when the limit is raised')
    else:
        rep.ok('LIM-NI', key, loc(b.raw), 'the limit parameter reaches only the divergence-limit argument of search*', fn=path)
    return 1


LIMIT_PARAM = {
    'fixed_priority::fully_preemptive::dedicated_uniproc_rta': 2, 'fixed_priority::fully_nonpreemptive::dedicated_uniproc_rta': 2,
    'fixed_priority::limited_preemptive::dedicated_uniproc_rta': 2, 'fixed_priority::floating_nonpreemptive::dedicated_uniproc_rta': 2,
    'edf::fully_preemptive::dedicated_uniproc_rta': 2, 'edf::fully_nonpreemptive::dedicated_uniproc_rta': 2,
    'edf::limited_preemptive::dedicated_uniproc_rta': 2, 'edf::floating_nonpreemptive::dedicated_uniproc_rta': 2,
    'fifo::rta::dedicated_uniproc_rta': 1,
    'ros2::ecrts19::rta_event_source': 2, 'ros2::ecrts19::rta_timer': 4, 'ros2::ecrts19::rta_polling_point_callback': 3,
    'ros2::ecrts19::rta_processing_chain': 5, 'ros2::rr::rta_subchain': 3, 'ros2::bw::rta_subchain': 3,
}


def check_all_limits(rep, crate, which=None):
    n = 0
    for path, idx in LIMIT_PARAM.items():
        if which is not None and not any(path.startswith(w) for w in which):
            continue
        n += check_limit_noninterference(rep, crate, path, idx, '::'.join(path.split('::')[:-1]) if 'dedicated' in path else path.split('::', 1)[1])
    return n


def check_rta(rep, crate):
    n = 0
    for path, spec in ANALYSES.items():
        sh = '::'.join(path.split('::')[:-1])
        try:
            m = RtaModel(crate, path)
        except AnchorMissing as ex:
            rep.bad('ANCHOR', f'ANCHOR:{sh}', path, f'cannot recover the analysis structure: {ex.what}', fn=path, why='fail closed')
            continue
        params = {}
        if spec['family'] == 'FP' and spec['kind'] != 'P':
            params['blocking_bound'] = P(0, 'blocking_bound')
        try:
            judge_closure(rep, f'{sh}:BW', m.where, path, m.BW(), params)
            n += 1
            if spec['family'] != 'FIFO':
                judge_closure(rep, f'{sh}:OFF', m.where, path, m.OFF(), params)
                n += 1
        except AnchorMissing as ex:
            rep.bad('ANCHOR', f'ANCHOR:{sh}:{ex.what[:40]}', m.where, ex.what, fn=path, why='fail closed')
    return n


def check_ros2(rep, crate):
    n = 0
    # ecrts19: through the helper (inlined)
    for name in R2.ECRTS19:
        path = 'ros2::ecrts19::' + name
        b = crate.body(path)
        if b is None:
            rep.bad('ANCHOR', f'ANCHOR:{name}', path, 'entry point not found', fn=path)
            continue
        where = loc(b.raw)
        try:
            ev = Evaluator(crate)
            top = T.unroot(ev.eval_body(b))
            m = expect(top[2][0], 'map', 'argument of max_response_time')
            lam = m[2]
            per = T.unroot(T.substitute(lam[2], {T.bv(lam[1]): A}))
            comps = flatten_space(m[1])
            bw_calls = []
            for c in comps:
                if c['bound'] is not None:
                    for sc in search_calls(c['bound']):
                        if sc not in bw_calls:
                            bw_calls.append(sc)
            params = {}
            if name == 'rta_timer':
                params['blocking_bound'] = P(3)
            judge_closure(rep, f'{name}:BW', where, path, ev.apply(bw_calls[0][2][2], [X]), params)
            off = T.substitute(ev.apply(per[2][3], [X]), {T.bv(lam[1]): A})
            judge_closure(rep, f'{name}:OFF', where, path, off, params)
            n += 2
        except (AnchorMissing, IndexError, TypeError) as ex:
            rep.bad('ANCHOR', f'ANCHOR:{name}:mono', where, f'cannot recover the right-hand sides: {ex}', fn=path, why='fail closed')
    # rr / bw
    for an, path in (('rr', 'ros2::rr::rta_subchain'), ('bw', 'ros2::bw::rta_subchain')):
        b = crate.body(path)
        if b is None:
            rep.bad('ANCHOR', f'ANCHOR:{an}', path, 'entry point not found', fn=path)
            continue
        where = loc(b.raw)
        ev = Evaluator(crate)
        top = T.unroot(ev.eval_body(b))
        pp = T.canon(R2.pp_bound(0))
        for i, sc in enumerate(search_calls(top)):
            t = ev.apply(sc[2][2], [X])
            t = T.canon(t)
            # the polling-point bound occurs below other binders: find it modulo renaming of bound variables
            params = {}
            for sub in T.subterms(t):
                if is_tag(sub, 'sum') and T.canon(sub) == pp:
                    params['polling-point bound of the subchain'] = sub
                    break
            if not params:
                rep.bad('ANCHOR', f'ANCHOR:{an}:search#{i + 1}:pp', where, 'the polling-point bound of the subchain does not occur in the right-hand side', fn=path,
                        why='fail closed: MONO-PARAM cannot be evaluated')
            judge_closure(rep, f'{an}:search#{i + 1}', where, path, t, params)
            # assumed response-time bounds of the callbacks
            rtb = [r for r in T.subterms(t) if is_tag(r, 'f') and r[2] == 'response_time_bound']
            seen = set()
            for r in rtb:
                if r in seen:
                    continue
                seen.add(r)
                v = variance(t, r)
                k = f'MONO-PARAM:{an}:search#{i + 1}:response_time_bound of {T.show(r[1])[:40]}'
                if v == '+':
                    rep.ok('MONO-PARAM', k, where, 'right-hand side is non-decreasing in the assumed response-time bound', fn=path)
                elif v in ('-', 'M'):
                    rep.bad('MONO-PARAM', k, where, 'right-hand side decreases in an assumed response-time bound', fn=path)
                elif v == '?':
                    rep.undecided_note('MONO-PARAM', k, where, 'variance in the assumed response-time bound not decided')
            n += 1
    return n
