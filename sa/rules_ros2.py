"""SPEC rules for the ROS 2 analyses: ecrts19.rs (Casini et al., ECRTS'19, Lemmas 1,3,4/5,6,7,8) and
rr.rs / bw.rs (Blass et al., RTSS'21, Defs 1-3,5, Lemma 18/19, Thms 2/3).

The expected terms below are the papers' definitions written with the same term constructors the
abstract interpreter uses; actual terms are recovered from the type-checked program by flow."""

from . import term as T
from .compare import compare, Cmp, EQ, UNDER, OVER, MIXED
from .evalr import Evaluator
from .facts import loc
from .report import AnchorMissing
from .rta_model import A, X, O, DELTA, is_tag, expect, search_calls, flatten_space, SEARCH, MAXRT, P
from .rules_rta import judge, violates, _has_bare, rename_foreach

SN = 'demand::RequestBound::service_needed'
LW = 'demand::RequestBound::least_wcet_in_interval'
NA = 'arrival::ArrivalBound::number_arrivals'
COST = 'wcet::JobCostModel::cost_of_jobs'
STEPS_AB = 'arrival::ArrivalBound::steps_iter'
STEPS_RB = 'demand::RequestBound::steps_iter'
ST = 'supply::SupplyBound::service_time'
PS = 'supply::SupplyBound::provided_service'
SWO = 'fixed_point::search_with_offset'


def n(k):
    return T.const(k)


def plus(*xs):
    acc = T.const(0)
    for x in xs:
        acc = T.add(acc, x)
    return acc


def call(path, *args):
    return T.root(T.call(path, *[T.unroot(a) for a in args]))


def sn(r, d):
    return call(SN, r, d)


# =============================================================== ECRTS'19

def ecrts19_spec(name):
    I = lambda own: plus(A, n(1), T.pos(T.sub(X, call(LW, own, T.add(A, X)))))
    if name == 'rta_event_source':
        sup, dem, lim = P(0), P(1), P(2)
        return dict(supply=sup, limit=lim, steps=dem, BW=sn(dem, X), OFF=sn(dem, T.add(A, n(1))))
    if name == 'rta_timer':
        sup, own, hp, blk, lim = P(0), P(1), P(2), P(3), P(4)
        return dict(supply=sup, limit=lim, steps=own, BW=plus(sn(own, X), blk, sn(hp, X)),
                    OFF=plus(sn(own, T.add(A, n(1))), sn(hp, I(own)), blk))
    if name == 'rta_polling_point_callback':
        sup, own, hp, lim = P(0), P(1), P(2), P(3)
        return dict(supply=sup, limit=lim, steps=own, BW=plus(sn(own, X), sn(hp, X)),
                    OFF=plus(sn(own, T.add(A, n(1))), sn(hp, I(own))))
    if name == 'rta_processing_chain':
        sup, last, prefix, full, other, lim = P(0), P(1), P(2), P(3), P(4), P(5)
        return dict(supply=sup, limit=lim, steps=full, BW=plus(sn(full, X), sn(other, X)),
                    OFF=plus(sn(last, T.add(A, n(1))), sn(prefix, I(last)), sn(other, I(last))))
    raise KeyError(name)


ECRTS19 = ['rta_event_source', 'rta_timer', 'rta_polling_point_callback', 'rta_processing_chain']


def check_ecrts19(rep, crate, mode):
    count = 0
    for name in ECRTS19:
        path = 'ros2::ecrts19::' + name
        body = crate.body(path)
        if body is None:
            rep.bad('ANCHOR', f'ANCHOR:{name}', path, 'entry point not found', fn=path)
            continue
        where = loc(body.raw)
        try:
            _check_ecrts19(rep, crate, body, name, path, where, mode)
            count += 1
        except AnchorMissing as ex:
            rep.bad('ANCHOR', f'ANCHOR:{name}:{ex.what[:50]}', where, f'cannot recover the analysis structure: {ex.what}', fn=path,
                    why='fail closed: the rule cannot be evaluated')
    return count


def _check_ecrts19(rep, crate, body, name, path, where, mode):
    spec = ecrts19_spec(name)
    ev = Evaluator(crate)
    top = T.unroot(ev.eval_body(body))
    fn = path
    if not (is_tag(top, 'call') and top[1] == MAXRT):
        raise AnchorMissing(f'result is not max_response_time(..): {T.show(top)[:160]}')
    m = expect(top[2][0], 'map', 'argument of max_response_time')
    space, lam = m[1], m[2]
    per = T.unroot(T.substitute(lam[2], {T.bv(lam[1]): A}))
    rep.ok('COMBINE', f'COMBINE:{name}', where, 'every per-offset result reaches fixed_point::max_response_time', fn=fn)
    # per offset: search_with_offset(supply, A, limit, rhs)
    if not (is_tag(per, 'call') and per[1] == SWO):
        raise AnchorMissing(f'per-offset value is not search_with_offset(..): {T.show(per)[:160]}')
    sup, off, lim, clo = per[2]
    # offset coupling
    if T.as_lin(off) == T.as_lin(A):
        rep.ok('COUPLE', f'COUPLE:{name}', where, 'the offset handed to search_with_offset is the offset the right-hand side is evaluated for', fn=fn)
    else:
        rep.bad('COUPLE', f'COUPLE:{name}', where, f'search_with_offset runs at offset {T.show(off)}', 'the same offset A as the right-hand side', fn=fn,
                direction='supply is shifted against demand', why='the search is offset-relative')
    # busy window search
    comps = flatten_space(space)
    bounds = [c['bound'] for c in comps if c['bound'] is not None]
    bw_calls = []
    for b in bounds:
        for sc in search_calls(b):
            if sc not in bw_calls:
                bw_calls.append(sc)
    if len(bw_calls) != 1:
        raise AnchorMissing(f'expected one busy-window search bounding the offsets, found {len(bw_calls)}')
    bwc = bw_calls[0]
    for role, s_, l_ in (('BW', bwc[2][0], bwc[2][1]), ('OFF', sup, lim)):
        if s_ == T.unroot(spec['supply']):
            rep.ok('PLUMB', f'PLUMB-SUPPLY:{name}:{role}', where, f'{role} search runs on the supply parameter', fn=fn)
        else:
            rep.bad('PLUMB', f'PLUMB-SUPPLY:{name}:{role}', where, f'{role} search runs on {T.show(s_)}', 'the supply parameter', fn=fn)
        if T.as_lin(l_) == T.as_lin(spec['limit']):
            rep.ok('LIM', f'LIM:{name}:{role}', where, f'{role} search receives the limit parameter unmodified', fn=fn)
        else:
            rep.bad('LIM', f'LIM:{name}:{role}', where, f'limit of the {role} search is {T.show(l_)}', 'the limit parameter, unmodified', fn=fn)
    # ERR
    if _has_bare(top, bwc):
        rep.bad('ERR', f'ERR:{name}:BW', where, 'busy-window search result used without `?`', fn=fn)
    else:
        rep.ok('ERR', f'ERR:{name}:BW', where, 'busy-window search result is consumed by `?`; per-offset results are the items of max_response_time', fn=fn)
    # equations
    bw = ev.apply(bwc[2][2], [X])
    judge(rep, 'SPEC-BW', f'SPEC-BW:{name}', where, bw, spec['BW'], mode, fn, 'BW(X)')
    off_t = T.substitute(ev.apply(clo, [X]), {T.bv(lam[1]): A})
    judge(rep, 'SPEC-OFF', f'SPEC-OFF:{name}', where, off_t, spec['OFF'], mode, fn, 'rhs_A(X)')
    # search space: steps of the declared demand, shifted by -1, A <= max_bw
    if len(comps) != 1:
        rep.bad('SPACE', f'SPACE:{name}:components', where, f'{len(comps)} search-space components', 'one: the steps of the demand under analysis', fn=fn)
    c = comps[0]
    want_src = ('elems', T.call(STEPS_RB, T.unroot(spec['steps'])))
    if T.unroot(c['source']) == want_src:
        rep.ok('SPACE', f'SPACE:{name}:source', where, f'offsets are taken from the steps of {T.show(spec["steps"])}', fn=fn)
    else:
        rep.bad('SPACE', f'SPACE:{name}:source', where, f'offsets are taken from {T.show(c["source"])}', T.show(want_src), fn=fn,
                direction='steps of the demand under analysis can be missed')
    shift = DELTA if c['shift'] is None else T.substitute(c['shift'][2], {T.bv(c['shift'][1]): DELTA})
    if T.as_lin(shift) == T.sub(DELTA, n(1)):
        rep.ok('SPACE', f'SPACE:{name}:shift', where, 'offset of a step δ is δ - 1', fn=fn)
    else:
        rep.bad('SPACE', f'SPACE:{name}:shift', where, f'offset of a step δ is {T.show(shift)}', 'δ - 1', fn=fn, direction='offsets are displaced')
    if c['extra']:
        rep.bad('SPACE', f'SPACE:{name}:stages', where, f'additional stage(s) {c["extra"]}', 'only map(shift) and take_while', fn=fn, direction='offsets are dropped')
    else:
        rep.ok('SPACE', f'SPACE:{name}:stages', where, 'no truncating stage on the search space', fn=fn)
    L = T.root(('try', bwc))
    if c['bound'] is None:
        rep.bad('SPACE', f'SPACE:{name}:bound', where, 'search space is unbounded', 'take_while(A <= max_bw)', fn=fn)
    else:
        pred = T.substitute(c['bound'][2], {T.bv(c['bound'][1]): A})
        want = T.cmp('Le', A, L)
        cc = Cmp()
        b = 'eq' if pred == want else cc.cmp_bool(pred, want)
        direction = {'eq': EQ, 'stronger': UNDER, 'weaker': OVER}.get(b, MIXED)
        if violates(direction, mode):
            rep.bad('SPACE', f'SPACE:{name}:bound', where, f'offsets kept while {T.show(pred)}', T.show(want), fn=fn,
                    direction={'stronger': 'fewer offsets (unsafe direction)', 'weaker': 'more offsets (pessimistic direction)'}.get(b, 'not comparable'))
        else:
            rep.ok('SPACE', f'SPACE:{name}:bound', where, f'offsets kept while {T.show(pred)}' + ('' if b == 'eq' else f'  [{b}: tolerated]'), T.show(want), fn=fn)
    # DOM: own demand at A+1 <-> steps - 1 (for the chain: last callback's steps are a subset of the full chain's)
    return True


# =============================================================== RTSS'21 rr / bw

def F(t, *names):
    for nm in names:
        t = T.fld(t, nm)
    return t


EOC = ('idx', P(2), T.sub(T.root(('len', P(2))), T.const(1)))      # subchain.last().expect(..) == subchain[len - 1]
WL = P(1)
SUB = P(2)
TIMER_ES = 'ros2::rr::CallbackType::EventSource|ros2::rr::CallbackType::Timer'
PUP = 'ros2::rr::CallbackType::PolledUnknownPrio'
POLLED = 'ros2::rr::CallbackType::Polled(_)'


def eta(cb, d):
    return call(NA, F(cb, 'arrival_bound'), d)


def cost(cb, k):
    return call(COST, F(cb, 'cost_model'), k)


def pp_bound(depth):
    e = T.bv(depth)
    return T.root(('sum', ('map', ('elems', SUB), ('lam', depth, eta(e, F(e, 'response_time_bound'))))))


def prio_lt(cb):
    return T.ind(T.cmp('Lt', T.root(('case', F(cb, 'kind'), 'Polled', 0)), T.root(('case', F(EOC, 'kind'), 'Polled', 0))))


CT = 'ros2::rr::CallbackType::'


def m(x, variant):
    return ('matches', T.unroot(x), CT + variant)


def is_pp_cond(kind):
    return T.tor(m(kind, 'Polled'), m(kind, 'PolledUnknownPrio'))


def kind_table(cb, arrived, cap_base):
    """Def. 1 / Def. 5: number of instances of cb that can interfere -- a decision list over the callback kinds"""
    k, ek = F(cb, 'kind'), F(EOC, 'kind')
    polled = T.ite(m(ek, 'Polled'), T.tmin(arrived, T.add(cap_base, prio_lt(cb))), T.tmin(arrived, T.add(cap_base, n(1))))
    return T.ite(T.tor(m(k, 'Timer'), m(k, 'EventSource')), arrived,
                 T.ite(m(k, 'PolledUnknownPrio'), T.tmin(arrived, T.add(cap_base, n(1))), polled))


def interference_sum(depth, per_cb):
    cb = T.bv(depth)
    body = T.ite(('ptreq', *sorted([cb, EOC], key=T.key)), n(0), per_cb(cb))
    return T.root(('sum', ('map', ('elems', WL), ('lam', depth, body))))


def rr_spec():
    eff = lambda cb, s: T.pos(plus(s, F(cb, 'response_time_bound'), n(-1)))
    direct = lambda s, d: (lambda cb: cost(cb, kind_table(cb, eta(cb, eff(cb, s)), pp_bound(d + 1))))
    msi = lambda s: T.pos(T.sub(eta(EOC, eff(EOC, s)), n(1)))
    RHS = plus(n(1), interference_sum(0, direct(X, 0)), cost(EOC, msi(X)))
    S = T.var('S*')
    omega = T.sub(cost(EOC, T.add(msi(S), n(1))), cost(EOC, msi(S)))
    RES = ('ok', call(ST, P(0), T.add(T.pos(T.sub(call(PS, P(0), S), n(1))), omega)))
    return dict(RHS=RHS, RES=RES, S=S)


def bw_spec():
    def bwrbf(s, t, d):
        def per(cb):
            arrived = eta(cb, s)
            arrived_bw = T.add(eta(cb, t), pp_bound(d + 1))
            return cost(cb, kind_table(cb, arrived, arrived_bw))
        return per
    msi = lambda t: T.pos(T.sub(eta(EOC, T.add(t, n(1))), n(1)))
    RHS = plus(n(1), interference_sum(0, bwrbf(X, A, 0)), cost(EOC, msi(A)))
    S = T.var('S*')
    omega = T.sub(cost(EOC, T.add(msi(A), n(1))), cost(EOC, msi(A)))
    Fs = call(ST, P(0), T.add(T.pos(T.sub(call(PS, P(0), S), n(1))), omega))
    singleton = T.eq0(T.sub(T.root(('len', SUB)), n(1)))
    RES = T.ite(singleton, ('ok', T.pos(T.sub(Fs, A))), ('ok', Fs))
    RHS_MAX = plus(n(1), interference_sum(0, bwrbf(X, X, 0)), cost(EOC, eta(EOC, X)))
    # Lemma 19: steps of the end of the chain shifted by one, steps of polled callbacks as they are
    cb = T.bv(0)
    is_pp = is_pp_cond(F(cb, 'kind'))
    is_eoc = ('ptreq', *sorted([cb, EOC], key=T.key))
    filt = T.tor(is_pp, is_eoc)
    shift = T.ite(is_eoc, T.pos(T.sub(T.bv(1), n(1))), T.as_lin(T.bv(1)))
    comp = ('map', ('elems', T.call(STEPS_AB, F(cb, 'arrival_bound'))), ('lam', 1, shift))
    SPACE = ('dedup', ('kmerge', ('map', ('filter', ('elems', WL), ('lam', 0, filt)), ('lam', 0, comp))))
    return dict(RHS=RHS, RES=RES, S=S, RHS_MAX=RHS_MAX, SPACE=SPACE)


def strip_debug_zip(it):
    """map(zip(X, B), λp. p.0)  ->  X   (the debug-only cross-check of bw.rs; its identity is C20's clause)"""
    it = T.unroot(it)
    if is_tag(it, 'map') and is_tag(it[1], 'zip') and is_tag(it[2], 'lam'):
        d = it[2][1]
        if T.unroot(it[2][2]) == ('f', T.bv(d), '0'):
            return it[1][1], True
    return it, False


def check_rr(rep, crate, mode):
    path = 'ros2::rr::rta_subchain'
    body = crate.body(path)
    if body is None:
        rep.bad('ANCHOR', 'ANCHOR:rr', path, 'entry point not found', fn=path)
        return 0
    where = loc(body.raw)
    fn = path
    try:
        spec = rr_spec()
        ev = Evaluator(crate)
        top = T.unroot(ev.eval_body(body))
        scs = search_calls(top)
        if len(scs) != 1:
            raise AnchorMissing(f'expected one search (S*), found {len(scs)}')
        sc = scs[0]
        _plumb(rep, 'rr', 'S*', sc, where, fn)
        if _has_bare(top, sc):
            rep.bad('ERR', 'ERR:rr:S*', where, 'S* search result used without `?`', fn=fn)
        else:
            rep.ok('ERR', 'ERR:rr:S*', where, 'S* search result is consumed by `?`', fn=fn)
        rhs = ev.apply(sc[2][2], [X])
        judge(rep, 'SPEC-RHS', 'SPEC-RHS:rr', where, rhs, spec['RHS'], mode, fn, 'rhs_S*(X)')
        res = T.substitute(top, {('try', sc): spec['S']})
        judge(rep, 'SPEC-RES', 'SPEC-RES:rr', where, res, spec['RES'], mode, fn, 'R*')
        check_priority_fn(rep, crate)
        return 1
    except AnchorMissing as ex:
        rep.bad('ANCHOR', f'ANCHOR:rr:{ex.what[:50]}', where, f'cannot recover the analysis structure: {ex.what}', fn=fn, why='fail closed')
        return 0


def _plumb(rep, an, role, sc, where, fn):
    if sc[2][0] == P(0):
        rep.ok('PLUMB', f'PLUMB-SUPPLY:{an}:{role}', where, f'{role} search runs on the supply parameter', fn=fn)
    else:
        rep.bad('PLUMB', f'PLUMB-SUPPLY:{an}:{role}', where, f'{role} search runs on {T.show(sc[2][0])}', 'the supply parameter', fn=fn)
    if T.as_lin(sc[2][1]) == T.as_lin(P(3)):
        rep.ok('LIM', f'LIM:{an}:{role}', where, f'{role} search receives the limit parameter unmodified', fn=fn)
    else:
        rep.bad('LIM', f'LIM:{an}:{role}', where, f'limit of the {role} search is {T.show(sc[2][1])}', 'the limit parameter, unmodified', fn=fn)


def check_priority_fn(rep, crate):
    p = 'ros2::rr::is_higher_callback_priority_than'
    b = crate.body(p)
    if b is None:
        rep.bad('ANCHOR', 'ANCHOR:priority-fn', p, 'function not found', fn=p)
        return
    t = Evaluator(crate).eval_body(b)
    want = T.cmp('Lt', P(0), P(1))
    if t == want:
        rep.ok('PRIO', 'PRIO:is_higher_callback_priority_than', loc(b.raw), 'a has higher priority than b iff a < b (numerically smaller = registered earlier)', fn=p)
    else:
        rep.bad('PRIO', 'PRIO:is_higher_callback_priority_than', loc(b.raw), f'priority order is {T.show(t)}', T.show(want), fn=p)


def check_bw(rep, crate, mode, cfgname):
    path = 'ros2::bw::rta_subchain'
    body = crate.body(path)
    if body is None:
        rep.bad('ANCHOR', 'ANCHOR:bw', path, 'entry point not found', fn=path)
        return 0
    where = loc(body.raw)
    fn = path
    try:
        spec = bw_spec()
        ev = Evaluator(crate)
        top = T.unroot(ev.eval_body(body))
        if not (is_tag(top, 'call') and top[1] == MAXRT):
            raise AnchorMissing(f'result is not max_response_time(..): {T.show(top)[:160]}')
        m = expect(top[2][0], 'map', 'argument of max_response_time')
        space, lam = m[1], m[2]
        rep.ok('COMBINE', f'COMBINE:bw:{cfgname}', where, 'every per-offset result reaches fixed_point::max_response_time', fn=fn)
        per = T.substitute(lam[2], {T.bv(lam[1]): A})
        # search space: take_while(all_steps, A < max_offset)
        sp = T.unroot(space)
        if not is_tag(sp, 'take_while'):
            raise AnchorMissing(f'search space is not bounded by take_while: {T.show(sp)[:120]}')
        bound = T.substitute(sp[2][2], {T.bv(sp[2][1]): A})
        steps, stripped = strip_debug_zip(sp[1])
        mo_calls = search_calls(bound)
        if len(mo_calls) != 1:
            raise AnchorMissing(f'expected one max-offset search in the bound, found {len(mo_calls)}')
        mo = mo_calls[0]
        s_calls = [sc for sc in search_calls(per)]
        if len(s_calls) != 1:
            raise AnchorMissing(f'expected one S* search per offset, found {len(s_calls)}')
        ss = s_calls[0]
        for role, sc in (('max_offset', mo), ('S*', ss)):
            _plumb(rep, f'bw:{cfgname}', role, sc, where, fn)
            if _has_bare(top, sc):
                rep.bad('ERR', f'ERR:bw:{cfgname}:{role}', where, f'{role} search result used without `?`', fn=fn)
            else:
                rep.ok('ERR', f'ERR:bw:{cfgname}:{role}', where, f'{role} search result is consumed by `?`', fn=fn)
        # equations
        rhs_max = ev.apply(mo[2][2], [X])
        judge(rep, 'SPEC-RHS', f'SPEC-RHSMAX:bw:{cfgname}', where, rhs_max, spec['RHS_MAX'], mode, fn, 'rhs_max(X)')
        rhs = T.substitute(ev.apply(ss[2][2], [X]), {T.bv(lam[1]): A})
        judge(rep, 'SPEC-RHS', f'SPEC-RHS:bw:{cfgname}', where, rhs, spec['RHS'], mode, fn, 'rhs_S*(X)')
        res = T.substitute(per, {('try', ss): spec['S']})
        judge(rep, 'SPEC-RES', f'SPEC-RES:bw:{cfgname}', where, res, spec['RES'], mode, fn, 'R(t_a)')
        # bound: t_a < max_offset
        want = T.cmp('Lt', A, T.root(('try', mo)))
        cc = Cmp()
        b = 'eq' if bound == want else cc.cmp_bool(bound, want)
        direction = {'eq': EQ, 'stronger': UNDER, 'weaker': OVER}.get(b, MIXED)
        if violates(direction, mode):
            rep.bad('SPACE', f'SPACE:bw:{cfgname}:bound', where, f'offsets kept while {T.show(bound)}', T.show(want), fn=fn,
                    direction={'stronger': 'fewer offsets (unsafe direction)', 'weaker': 'more offsets (pessimistic direction)'}.get(b, 'not comparable'))
        else:
            rep.ok('SPACE', f'SPACE:bw:{cfgname}:bound', where, f'offsets kept while {T.show(bound)}', T.show(want), fn=fn)
        # steps (Lemma 19)
        got = T.canon(steps)
        wantsp = T.canon(spec['SPACE'])
        from . import linarith
        if got == wantsp or linarith.terms_equal(got, wantsp):
            rep.ok('SPACE', f'SPACE:bw:{cfgname}:steps', where,
                   'steps of the end-of-chain callback shifted by -1 and of every polled callback unshifted, merged and deduplicated'
                   + (' (debug cross-check wrapper stripped)' if stripped else ''), fn=fn)
        else:
            rep.bad('SPACE', f'SPACE:bw:{cfgname}:steps', where, f'relevant steps are {T.show(got)}', T.show(wantsp), fn=fn,
                    direction='not comparable', why='Lemma 19: t_a with eta_eoc(t_a) < eta_eoc(t_a+1), or eta_cb(t_a-1) < eta_cb(t_a) for a polled callback')
        return 1
    except AnchorMissing as ex:
        rep.bad('ANCHOR', f'ANCHOR:bw:{cfgname}:{ex.what[:50]}', where, f'cannot recover the analysis structure: {ex.what}', fn=fn, why='fail closed')
        return 0


def check_kind_table_agreement(rep, crate):
    """writer/reader agreement: the callback kinds for which the busy-window cap (arrived_bw) influences the
       count in bw::Callback::busy_window_rbf are exactly the kinds accepted by CallbackType::is_pp, which is the
       filter of the offset search space"""
    p = 'ros2::rr::CallbackType::is_pp'
    b = crate.body(p)
    if b is None:
        rep.bad('ANCHOR', 'ANCHOR:is_pp', p, 'function not found', fn=p)
        return
    t = Evaluator(crate).eval_body(b)
    want = is_pp_cond(P(0))
    if t == want:
        rep.ok('KIND', 'KIND:is_pp', loc(b.raw), 'is_pp accepts exactly Polled(_) and PolledUnknownPrio', fn=p)
    else:
        rep.bad('KIND', 'KIND:is_pp', loc(b.raw), f'is_pp is {T.show(t)}', T.show(want), fn=p,
                why='these are the kinds whose steps enter the bw search space; the busy-window cap applies to the same kinds')
    q = 'ros2::bw::Callback::<\'a, \'b, AB, CM>::busy_window_rbf'
    bb = crate.body(q)
    if bb is None:
        cands = [x for x in crate.body_list if x.path.startswith('ros2::bw::Callback') and x.path.endswith('busy_window_rbf')]
        bb = cands[0] if cands else None
    if bb is None:
        rep.bad('ANCHOR', 'ANCHOR:busy_window_rbf', q, 'method not found', fn=q)
        return
    ev = Evaluator(crate)
    t = T.unroot(ev.eval_body(bb))
    # specialise the count to each callback kind and see whether the activation-time cap still influences it
    act = P(3)
    kind = T.unroot(F(P(0), 'kind'))
    variants = ['Timer', 'EventSource', 'PolledUnknownPrio', 'Polled']
    adt = crate.adts.get('ros2::rr::CallbackType')
    if adt:
        variants = [v['name'] for v in adt['variants']]
    capped = []
    for v in variants:
        mp = {('matches', kind, CT + w): (T.TRUE if w == v else T.FALSE) for w in variants}
        tv = T.substitute(t, mp)
        if T.mentions(tv, act):
            capped.append(v)
    want_capped = sorted(['PolledUnknownPrio', 'Polled'])
    if sorted(capped) == want_capped:
        rep.ok('KIND', 'KIND:busy_window_rbf', loc(bb.raw), 'the activation-time cap influences the count exactly for Polled(_) and PolledUnknownPrio '
               f'(kinds: {variants})', fn=bb.path)
    else:
        rep.bad('KIND', 'KIND:busy_window_rbf', loc(bb.raw), f'the activation-time cap influences the count for {sorted(capped)} (kinds: {variants})', str(want_capped), fn=bb.path)
