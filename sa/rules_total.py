"""C20: SITE (panic-capable sites), TERM (loops and infinite iterator sources), PROFILE (debug vs release)."""

import json
import os

import re

from . import term as T
from . import sites
from .evalr import Evaluator
from .facts import loc

VERIF = os.path.dirname(os.path.dirname(os.path.abspath(__file__)))


def load_vetted():
    with open(os.path.join(VERIF, 'spec', 'vetted_sites.json')) as f:
        return {e['key']: e for e in json.load(f)}


# ---------------------------------------------------------------- SITE

def _same_failure(vetted, s, cfgname):
    """a vetted panic / unwrap of the same function with the same canonical failure condition"""
    fn = s['key'].split(':', 2)[1] if s['key'].count(':') >= 2 else None
    m = re.match(r'^(panic|unwrap):(.*?):(?:[^:]*)$', s['key'])
    for k, e in vetted.items():
        if not k.startswith(('panic:', 'unwrap:')) or k == s['key']:
            continue
        w = (e.get('when') or {}).get(cfgname)
        if w and w == s.get('when') and _fn_of(k) == _fn_of(s['key']):
            return e
    return None


_CALLERS = {}


def _callers_of(crate):
    cid = id(crate)
    if cid not in _CALLERS:
        m = {}
        for b in crate.body_list:
            for n in b.walk():
                if n.get('k') in ('Call', 'MethodCall') and n.get('callee'):
                    m.setdefault(n['callee'], set()).add(b.path)
        _CALLERS[cid] = m
    return _CALLERS[cid]


def _relocated(crate, vetted, s, cfgname):
    """a site with the same kind and the same canonical text as a vetted one whose function is a caller of this (private)
    function -- the code was extracted into a helper -- or no longer exists -- the helper was inlined"""
    key = s['key']
    kind = key.split(':', 1)[0]
    fn = _fn_of(key)
    rest = key[len(kind) + 1 + len(fn):]
    b = crate.body(fn)
    private = b is not None and str(b.raw.get('vis', '')).startswith('Restricted') and not b.raw.get('impl_trait')
    callers = _callers_of(crate).get(fn, set())
    for k, e in vetted.items():
        if not k.startswith(kind + ':') or cfgname not in e.get('configs', []):
            continue
        f2 = _fn_of(k)
        if f2 == fn or k[len(kind) + 1 + len(f2):] != rest:
            continue
        if (private and f2 in callers) or crate.body(f2) is None:
            if s['kind'] in ('panic', 'unwrap') and (e.get('when') or {}).get(cfgname) not in (None, s.get('when')):
                continue
            return e
    return None


def _same_condition(entry, s, cfgname):
    """the assert's condition is written differently but denotes the same condition as the vetted one (piecewise-linear
    parts proved equal case by case)"""
    ref = (entry.get('when_term') or {}).get(cfgname)
    if ref is None or s.get('when_term') is None:
        return False
    import ast
    from . import linarith
    try:
        return linarith.terms_equal(ast.literal_eval(ref), s['when_term'])
    except (ValueError, SyntaxError, RecursionError):
        return False


def _fn_of(key):
    # kind:<function path>:<rest>   (function paths contain '::' but the separators are single ':')
    body = key.split(':', 1)[1]
    parts = re.split(r'(?<!:):(?!:)', body)
    return parts[0]


def check_sites(rep, crate, cfgname, vetted, counts):
    n_bodies = 0
    for b in crate.body_list:
        if sites.skip_body(b):
            continue
        if sites.is_private_helper(crate, b) or b.path in sites.context_helpers(crate):
            # analysed in each calling context instead (see sites.collect)
            continue
        n_bodies += 1
        ev, ss = sites.collect(crate, b)
        if ev.unknown:
            for kind, where in ev.unknown[:3]:
                rep.undecided_note('SITE', f'SITE-UNKNOWN:{b.path}:{kind}', where, f'construct {kind} is opaque to the evaluator')
        for s in ss:
            counts[s['kind']] = counts.get(s['kind'], 0) + 1
            key = f"SITE:{s['key']}"
            fact = f"[{cfgname}] {s['kind']} site `{s['text'][:200]}`" + (f" (inlined from {s['via'][-1][0]})" if s['via'] else '')
            if s['kind'] == 'eval-failed':
                rep.bad('SITE', key, s['where'], s['text'], fn=b.path)
                continue
            why = sites.discharge(s) if s['kind'] != 'panic' else None
            if why:
                rep.ok('SITE', key, s['where'], fact + f' is guarded: {why}', fn=b.path)
            elif s['key'] in vetted and s['kind'] == 'panic' and (vetted[s['key']].get('when') or {}).get(cfgname) not in (None, s.get('when')) \
                    and not _same_condition(vetted[s['key']], s, cfgname):
                rep.bad('SITE', f"SITE-COND:{s['key']}", s['where'], f"[{cfgname}] the vetted assert now fires when: {s.get('when', '?')[:300]}",
                        'fires when: ' + vetted[s['key']]['when'][cfgname][:300], fn=b.path, direction='assert condition changed',
                        why='a weakened assert lets ill-formed input through to code that relies on it; a strengthened one panics on input that was '
                            'well-formed -- either way the vetted invariant no longer describes this site')
            elif s['key'] in vetted:
                rep.ok('SITE', key, s['where'], fact + ' relies on a vetted invariant: ' + vetted[s['key']]['invariant'], fn=b.path)
            elif _relocated(crate, vetted, s, cfgname) is not None:
                twin = _relocated(crate, vetted, s, cfgname)
                rep.ok('SITE', key, s['where'], fact + f' is the vetted site {twin["key"][:140]} relocated (the code moved into / out of a private helper; same expression '
                       f'over the same parameters): ' + twin['invariant'], fn=b.path)
            elif s.get('when') and _same_failure(vetted, s, cfgname) is not None:
                twin = _same_failure(vetted, s, cfgname)
                rep.ok('SITE', key, s['where'], fact + f' fails under exactly the condition of the vetted site {twin["key"][:120]} of the same function '
                       f'(e.g. a `panic!()` after an unsuccessful search rewritten as `.expect()` on that search): ' + twin['invariant'], fn=b.path)
            else:
                pc = ' && '.join(T.show(c) for c in s['pc']) or 'true'
                what = {'sub': 'raw subtraction that can underflow (debug: panic, release: wrap-around)',
                        'index': 'index that can be out of bounds', 'unwrap': 'unwrap/expect that can fail',
                        'div': 'division whose divisor is not known to be positive',
                        'panic': 'reachable panic/assert'}[s['kind']]
                rep.bad('SITE', key, s['where'], fact + f' under path condition [{pc[:300]}]',
                        'guarded by its path condition, or listed in spec/vetted_sites.json with its invariant', fn=b.path,
                        direction=what, why='a new or un-guarded panic-capable site: neither its path condition implies safety nor is there a vetted invariant')
    return n_bodies


# ---------------------------------------------------------------- TINV

def check_type_invariants(rep, crate, cfgname):
    """TINV-EST: every construction of a struct with a never-empty field provides a provably non-empty collection -- a
    non-empty literal, or a value whose emptiness makes an unconditional assert of the constructing function fire.
    (TINV-KEEP, that every later mutation only extends it, is the CACHE-APPEND who-may-write rule.)"""
    n = 0
    for field, ty in sites.NONEMPTY_FIELDS.items():
        owners = [p for p, a in crate.adts.items() if a.get('kind') == 'Struct' and any(f.get('name') == field for v in a.get('variants', []) for f in v.get('fields', []))]
        if owners != [ty]:
            rep.bad('TINV', f'TINV-UNIQUE:{field}', ty, f'field {field} is declared by {owners}', f'only by {ty}', fn=ty,
                    why='the invariant is attached to the field name; another struct with the same field name would inherit it unchecked')
            continue
        for b in crate.body_list:
            if sites.skip_body(b):
                continue
            lits = [x for x in b.walk() if x.get('k') == 'Struct' and (x['path'].get('def') == ty or strip_ty(x.get('ty', '')) == ty)]
            if not lits:
                continue
            ev = Evaluator(crate)
            try:
                top = ev.eval_entry(b)
            except RecursionError:
                rep.bad('TINV', f'TINV-EST:{b.path}', loc(b.raw), 'evaluation did not terminate', fn=b.path)
                continue
            vals = [top] + [e['value'] for e in ev.events if e['kind'] == 'ret' and e['depth'] == 0 and e.get('value') is not None]
            structs = []
            for v in vals:
                for y in T.subterms(T.unroot(v)):
                    if isinstance(y, tuple) and len(y) == 3 and y[0] == 'struct' and y[1] == ty and y not in structs:
                        structs.append(y)
            asserts = [T.canon(e['pc'][-1], True) for e in ev.events if e['kind'] == 'panic' and e['depth'] == 0 and len(e['pc']) == 1]
            key = f'TINV-EST:{b.path}'
            if len(structs) < 1:
                rep.bad('TINV', key, loc(lits[0]), f'[{cfgname}] {len(lits)} construction(s) of {ty} whose value the evaluator does not see in the result', 'a construction that is part of the returned value', fn=b.path, why='fail closed')
                continue
            n += 1
            bad = []
            for st in structs:
                v = T.unroot(dict(st[2]).get(field))
                lit = [y for y in T.subterms(v) if isinstance(y, tuple) and len(y) == 2 and y[0] == 'arr']
                is_literal = bool(lit) and len(lit[0][1]) >= 1 and (v == lit[0] or (isinstance(v, tuple) and v[0] == 'call' and sum(1 for a in v[2] if a is not None and a != 'None' and a != ('none',)) == 1))
                empty = T.canon(T.le0(T.root(('len', v))), True)
                if not (is_literal or empty in asserts):
                    bad.append(T.show(v)[:120])
            if bad:
                rep.bad('TINV', key, loc(lits[0]), f'[{cfgname}] {ty} is constructed with {field} = {"; ".join(bad)}, not known to be non-empty',
                        'a non-empty literal, or an unconditional assert!(!v.is_empty()) in the constructing function', fn=b.path,
                        direction='an empty delta-min vector reaches code that indexes its first / last element',
                        why='every method of the type relies on the invariant (first / last element, modulo by the largest distance)')
            else:
                rep.ok('TINV', key, loc(lits[0]), f'[{cfgname}] every {ty} built here has a non-empty {field} (literal, or asserted)', fn=b.path)
    return n


def strip_ty(t):
    return t.replace('&', '').replace('mut ', '').strip().split('<')[0]


# ---------------------------------------------------------------- TERM

FINITE_CALLS = ('demand::RequestBound::job_cost_iter',)   # finite by contract: takes number_arrivals(delta) items
INFINITE_CALLS = ('::steps_iter', 'wcet::JobCostModel::job_cost_iter', 'brute_force_steps_iter',
                  'arrival::dmin::nonzero_delta_min_iter', 'arrival::dmin::delta_min_iter')


def finiteness(it):
    """'finite' | 'infinite' | 'unknown' for an iterator term"""
    it = T.unroot(it)
    if not isinstance(it, tuple) or not it:
        return 'unknown'
    tag = it[0]
    if tag == 'range':
        return 'infinite' if it[2] == ('inf',) else 'finite'
    if tag in ('once', 'empty'):
        return 'finite'
    if tag in ('repeat', 'cycle'):
        return 'infinite'
    if tag == 'elems':
        src = it[1]
        if isinstance(src, tuple) and src and src[0] == 'call':
            if any(src[1].endswith(x) or src[1] == x for x in FINITE_CALLS):
                return 'finite'
            if any(src[1].endswith(x) for x in INFINITE_CALLS):
                return 'infinite'
            return 'unknown'
        if isinstance(src, tuple) and src and src[0] in ('struct',):
            return 'unknown'
        return 'finite'     # a collection (slice, Vec, VecDeque, parameter)
    if tag in ('take', 'take_while'):
        return 'finite'     # bounding stage (take_while: on the crate's monotone sequences)
    if tag in ('map', 'filter', 'skip', 'skip_while', 'step_by', 'rev', 'enumerate', 'dedup', 'sorted', 'filter_map',
               'inspect'):
        return finiteness(it[1])
    if tag == 'zip':
        a, b = finiteness(it[1]), finiteness(it[2])
        if 'finite' in (a, b):
            return 'finite'
        return 'infinite' if a == b == 'infinite' else 'unknown'
    if tag in ('chain', 'merge'):
        a, b = finiteness(it[1]), finiteness(it[2])
        if a == b == 'finite':
            return 'finite'
        return 'infinite' if 'infinite' in (a, b) else 'unknown'
    if tag in ('kmerge', 'flat_map'):
        inner = T.unroot(it[1])
        if isinstance(inner, tuple) and inner and inner[0] == 'map':
            a = finiteness(inner[1])
            b = finiteness(inner[2][2]) if inner[2][0] == 'lam' else 'unknown'
            if a == b == 'finite':
                return 'finite'
            return 'infinite' if 'infinite' in (a, b) else 'unknown'
        return 'unknown'
    return 'unknown'


DRAINING = {'sum', 'product', 'max', 'min', 'max_by', 'min_by', 'count', 'last', 'collect', 'from_iter', 'fold', 'for_each',
            'all', 'for'}
SEARCHING = {'next', 'peek', 'any', 'find', 'position', 'nth'}


def has_filter_over_infinite(it):
    """filter/skip_while directly over an infinite source: `next` on it is an unbounded search"""
    it = T.unroot(it)
    while isinstance(it, tuple) and it:
        if it[0] in ('filter', 'skip_while', 'filter_map') and finiteness(it[1]) == 'infinite':
            return True
        if it[0] in ('map', 'enumerate', 'rev', 'dedup', 'filter', 'skip_while', 'skip', 'step_by'):
            it = T.unroot(it[1])
            continue
        break
    return False


def _every_iteration(loop_ev, x):
    """x runs on every iteration that does not leave the loop at its head: its path condition is the loop's own plus the guard"""
    return len(x['pc']) <= len(loop_ev['pc']) + 1


def _need_push(field):
    def f(loop_ev, nid, inner):
        return any(x['kind'] == 'mutcall' and x['callee'].endswith('::push') and str(x.get('place', '')).endswith('.' + field)
                   and _every_iteration(loop_ev, x) for x in inner)
    return (f'every iteration pushes one element onto {field}', f)


def _need_strict_increase(loop_ev, nid, inner):
    for a in inner:
        if a['kind'] == 'assign' and not a['fields'] and a.get('local') is not None:
            H = T.root(('havoc', a['local'], nid))
            if sites.implies_nonneg(T.sub(T.sub(a['value'], H), T.const(1)), a['pc']) and \
                    any(T.mentions(c, T.unroot(H)) for x in inner if x['kind'] in ('ret', 'break') for c in x['pc']):
                return True
    return False


def _need_field_step(field):
    """a field of the loop-carried value grows by one on every iteration and is one of the quantities the loop guard tests
    (fields of crate-private structs are named by position, so the field is identified by what happens to it)"""
    def f(loop_ev, nid, inner):
        exits = [x for x in inner if x['kind'] in ('ret', 'break')]
        for a in inner:
            if a['kind'] == 'assign' and len(a['fields']) == 1 and a['fields'][0] != '[]' and _every_iteration(loop_ev, a):
                H = ('f', ('havoc', a['local'], nid), a['fields'][0])
                if T.as_lin(T.sub(a['value'], T.root(H))) == T.as_lin(T.const(1)) and any(T.mentions(c, H) for x in exits for c in x['pc']):
                    return True
        return False
    return (f'{field} (a field the guard tests) grows by one on every iteration', f)


def _need_assign_from(field_pos, callee):
    def f(loop_ev, nid, inner):
        exits = [x for x in inner if x['kind'] in ('ret', 'break')]
        for a in inner:
            if a['kind'] == 'assign' and len(a['fields']) == 1 and any(
                    isinstance(y, tuple) and y and y[0] == 'call' and str(y[1]).endswith(callee) for y in T.subterms(a['value'])):
                H = ('f', ('havoc', a['local'], nid), a['fields'][0])
                # .. and it is the quantity the loop guard tests
                if any(T.mentions(c, H) for x in exits for c in x['pc']):
                    return True
        return False
    return (f'the quantity tested by the guard is re-computed by {callee} in the loop', f)


def _need_exhaustion_exit(loop_ev, nid, inner):
    return any(x['kind'] in ('ret', 'break') and any(
        isinstance(c, tuple) and c and c[0] == 'not' and isinstance(c[1], tuple) and c[1][0] == 'matches' and
        any(isinstance(y, tuple) and y and y[0] == 'nextof' for y in T.subterms(c[1])) for c in x['pc']) for x in inner)


_DMIN = ('leaves the loop when the steps end; otherwise step_count = number_arrivals(step) is non-decreasing along the steps and unbounded',
         [('the loop is left when the step iterator is exhausted', _need_exhaustion_exit), _need_assign_from(2, 'number_arrivals')])
_XSTEPS = ('njobs grows by one per iteration and min_distance(njobs) is unbounded for a curve with a positive last delta-min',
           [_need_field_step('njobs')])

LOOP_VETTED = {
    # function path -> (reason the loop terminates beyond the patterns recognised automatically,
    #                   [(ingredient of that argument, predicate over the loop's events)]): the argument is only as good as
    # the code it talks about, so each ingredient it names must be found in the loop
    'supply::SupplyBound::service_time': (
        'unbounded supply: provided_service grows without bound, so the missing service shrinks to 0 (contract of SupplyBound)',
        [('the candidate time tested by the exit strictly increases on every other iteration', _need_strict_increase)]),
    'arrival::curve::Curve::extrapolate': (
        'extrapolate_next is >= the largest known distance plus the first entry; with a positive last delta-min the largest known distance grows strictly (well-formed curve)',
        [_need_push('min_distance')]),
    # (the two `advance` helpers are private and evaluated in place: their loops are judged in `next`, their only caller --
    #  and stay judged there when the helper is folded into `next`; the helper paths cover a tree where they are public)
    '<arrival::curve::ExtrapolatingCurve as arrival::ArrivalBound>::steps_iter::StepsIter::<\'a>::advance': _XSTEPS,
    '<<arrival::curve::ExtrapolatingCurve as arrival::ArrivalBound>::steps_iter::StepsIter<\'a> as std::iter::Iterator>::next': _XSTEPS,
    'arrival::dmin::DeltaMinIterator::<\'a, AB>::advance': _DMIN,
    '<arrival::dmin::DeltaMinIterator<\'a, AB> as std::iter::Iterator>::next': _DMIN,
}


def _relocated_loop(crate, b, loop_ev, nid, inner):
    """the loop of a vetted function that no longer exists, found again in an impl of the same trait method for a crate-private
    type (the type was renamed / hoisted): every ingredient of the vetted argument is present"""
    meth = b.raw.get('assoc_name')
    if not meth or not b.raw.get('impl_trait'):
        return None
    for path, (why, needs) in LOOP_VETTED.items():
        if crate.body(path) is not None or not path.endswith('::' + meth) or ' as ' + b.raw['impl_trait'] not in path:
            continue
        if all(f(loop_ev, nid, inner) for _, f in needs):
            return path
    return None


def check_term(rep, crate, cfgname, known_loop_findings=()):
    n_loops = 0
    n_consumers = 0
    for b in crate.body_list:
        if sites.skip_body(b) or b.path in sites.context_helpers(crate):
            # a private loop helper evaluated in place in every caller: its loops are judged there
            continue
        ev = Evaluator(crate, inline_private_loops='unit')
        try:
            ev.eval_entry(b)
        except RecursionError:
            continue
        for e in ev.events:
            if e['depth'] != 0:
                continue
            if e['kind'] == 'loop':
                src = e.get('src')
                nid = e['node'].get('_nid')
                where = loc(e['node'])
                if src == 'ForLoop':
                    n_loops += 1
                    fin = finiteness(e.get('iter')) if e.get('iter') is not None else 'unknown'
                    key = f'TERM-FOR:{b.path}:{sites.canon_text(T.show(e.get("iter")))[:120]}'
                    if fin == 'infinite':
                        # a `for` over an infinite source terminates only through return/break inside
                        exits = [x for x in ev.events if x['kind'] in ('ret', 'break') and nid in x['loops']]
                        if exits:
                            rep.undecided_note('TERM', key, where, f'[{cfgname}] for-loop over an infinite source, left only through return/break')
                        else:
                            rep.bad('TERM', key, where, f'[{cfgname}] for-loop over the infinite source {T.show(e.get("iter"))[:160]} with no exit', fn=b.path)
                    else:
                        rep.ok('TERM', key, where, f'[{cfgname}] for-loop over a {fin} source', fn=b.path)
                    continue
                n_loops += 1
                key = f'TERM-LOOP:{b.path}'
                inner = [x for x in ev.events if x['depth'] == 0 and x['loops'] and x['loops'][-1] == nid]
                why = progress_pattern(e, nid, inner) or push_progress(e, nid, inner)
                if why:
                    rep.ok('TERM', key, where, f'[{cfgname}] {src} loop makes strict progress towards its guard: {why}', fn=b.path)
                elif b.path in LOOP_VETTED and not [d for d, f in LOOP_VETTED[b.path][1] if not f(e, nid, inner)]:
                    rep.ok('TERM', key, where, f'[{cfgname}] {src} loop terminates by a vetted argument: {LOOP_VETTED[b.path][0]}; its ingredients are present: '
                           + '; '.join(d for d, _ in LOOP_VETTED[b.path][1]), fn=b.path)
                elif b.path not in LOOP_VETTED and _relocated_loop(crate, b, e, nid, inner) is not None:
                    old_path = _relocated_loop(crate, b, e, nid, inner)
                    rep.ok('TERM', key, where, f'[{cfgname}] {src} loop is the vetted loop of {old_path[:90]} (that function no longer exists: its type was '
                           f'renamed or moved; same trait method, all ingredients of the argument present): {LOOP_VETTED[old_path][0]}', fn=b.path)
                elif b.path in LOOP_VETTED:
                    missing = [d for d, f in LOOP_VETTED[b.path][1] if not f(e, nid, inner)]
                    rep.bad('TERM', key, where, f'[{cfgname}] {src} loop no longer has what its vetted termination argument rests on: ' + '; '.join(missing),
                            LOOP_VETTED[b.path][0], fn=b.path, direction='termination argument no longer applies',
                            why='the vetted argument names a quantity that moves on every iteration; the loop does not move it any more')
                else:
                    exits = [x for x in inner if x['kind'] in ('ret', 'break')]
                    fact = f'[{cfgname}] {src} loop with {len(exits)} exit(s): ' + '; '.join(
                        'exit when ' + (' && '.join(T.show(c) for c in x['pc']) or 'reached') for x in exits)[:400]
                    rep.bad('TERM', key, where, fact, 'a counter that moves strictly towards the loop bound, or a vetted termination argument', fn=b.path,
                            direction='termination depends on values the analysis cannot bound',
                            why='no progress pattern matches and the loop is not in the vetted list')
            elif e['kind'] == 'consume':
                n_consumers += 1
                it = e['it']
                c = e['consumer']
                where = loc(e['node'])
                key = f'TERM-ITER:{b.path}:{c}:{sites.canon_text(T.show(it))[:140]}'
                fin = finiteness(it)
                if c in DRAINING:
                    if fin == 'infinite':
                        rep.bad('TERM', key, where, f'[{cfgname}] `{c}` drains the infinite iterator {T.show(it)[:200]}',
                                'a bounding stage (take / take_while / zip with a finite iterator) before the consumer', fn=b.path,
                                direction='does not terminate')
                    elif fin == 'finite':
                        rep.ok('TERM', key, where, f'[{cfgname}] `{c}` consumes a finite iterator', fn=b.path)
                    else:
                        rep.undecided_note('TERM', key, where, f'[{cfgname}] `{c}` consumes an iterator of unknown length: {T.show(it)[:160]}')
                elif c in SEARCHING:
                    if has_filter_over_infinite(it):
                        rep.bad('TERM', key, where, f'[{cfgname}] `{c}` searches the unbounded iterator {T.show(it)[:200]}',
                                'a bounded range, or a reason why a match always exists', fn=b.path,
                                direction='does not terminate when nothing matches')
                    else:
                        rep.ok('TERM', key, where, f'[{cfgname}] `{c}` on an iterator without an unbounded search', fn=b.path)
    return n_loops, n_consumers


def push_progress(loop_ev, nid, inner):
    """`while v.len() < n { v.push(..) }`: the loop is left once len(v) reaches a bound that does not move with the loop, every
    iteration pushes onto v, and nothing else in the loop touches v"""
    brk = [x for x in inner if x['kind'] in ('break', 'ret')]
    pushes = [x for x in inner if x['kind'] == 'mutcall' and x['callee'].endswith('::push') and _every_iteration(loop_ev, x)]
    for pu in pushes:
        place = str(pu.get('place', ''))
        if '.' not in place:
            continue
        fieldname = place.rsplit('.', 1)[1]
        others = [x for x in inner if x is not pu and ((x['kind'] == 'mutcall' and str(x.get('place', '')) == place) or
                                                     (x['kind'] == 'assign' and (not x['fields'] and x.get('local') == pu.get('target')
                                                                                 or fieldname in x['fields'])))]
        if others:
            continue
        for b in brk:
            for c in b['pc']:
                if isinstance(c, tuple) and c and c[0] == 'le0':
                    rs = T.lin_roots(c[1])
                    lens = [r for r in rs if isinstance(r, tuple) and r and r[0] == 'len' and T.unroot(r[1]) == ('f', ('havoc', pu.get('target'), nid), fieldname)]
                    if len(lens) == 1 and rs[lens[0]] < 0 and not any(
                            r != lens[0] and any(isinstance(y, tuple) and len(y) == 3 and y[0] == 'havoc' and y[2] == nid for y in T.subterms(r)) for r in rs):
                        return f'every iteration pushes one element onto {place} and the loop is left once its length reaches a fixed bound'
    return None


def progress_pattern(loop_ev, nid, inner):
    """counter with bound: the loop is left when `v > bound` (break) and the only assignment to v inside the loop sets
    it to a value that its own path condition proves larger than the value at the loop head"""
    brk = [x for x in inner if x['kind'] in ('break', 'ret')]
    assigns = [x for x in inner if x['kind'] == 'assign' and not x['fields']]
    if not brk or not assigns:
        return None
    vars_ = {a['local'] for a in assigns}
    loop_roots = {T.unroot(T.root(('havoc', lid, nid))) for lid in vars_}
    for lid in vars_:
        H = T.root(('havoc', lid, nid))
        Hr = T.unroot(H)
        # an exit that is taken once the counter exceeds a bound that does not itself move with the loop:
        # a conjunct  bound - H + k <= 0  (coefficient of H negative, no other loop-carried root)
        bounded = False
        for b in brk:
            for c in b['pc']:
                if isinstance(c, tuple) and c and c[0] == 'le0':
                    rs = T.lin_roots(c[1])
                    if rs.get(Hr, 0) < 0 and not any(r != Hr and any(T.mentions(r, o) for o in loop_roots) for r in rs):
                        bounded = True
        if not bounded:
            continue
        ok = True
        for a in assigns:
            if a['local'] != lid:
                continue
            # value - H - 1 >= 0 under the assignment's path condition
            if not sites.implies_nonneg(T.sub(T.sub(a['value'], H), T.const(1)), a['pc']):
                ok = False
        if ok:
            name = [a.get('name') for a in assigns if a['local'] == lid][0]
            return f'{name} strictly increases on every iteration that does not leave the loop, and the loop is left once it exceeds a fixed bound'
    return None


# ---------------------------------------------------------------- PROFILE

def strip_debug_wrappers(t):
    """map(zip(X, B), λp. p.0) -> X, anywhere in the term"""
    def walk(x):
        if not isinstance(x, tuple):
            return x
        if T.is_lin(x):
            acc = T.const(x[1])
            for r, c in x[2]:
                acc = T.add(acc, T.scale(T.as_lin(walk(r)), c))
            return acc
        x = tuple(walk(y) for y in x)
        if len(x) == 3 and x[0] == 'map' and isinstance(x[1], tuple) and x[1] and x[1][0] == 'zip' \
                and isinstance(x[2], tuple) and x[2][0] == 'lam' and T.unroot(x[2][2]) == ('f', T.bv(x[2][1]), '0'):
            return x[1][1]
        return x
    return walk(t)


def check_profile(rep, dbg, rel):
    """the value computed by every function is the same canonical term in the debug and the release configuration"""
    n = 0
    only_dbg = []
    for b in dbg.body_list:
        if sites.skip_body(b):
            continue
        r = rel.body(b.path)
        if r is None or r.file != b.file:
            only_dbg.append(b)
            continue
        try:
            evd, evr = Evaluator(dbg), Evaluator(rel)
            td = evd.eval_body(b)
            tr = evr.eval_body(r)
            cd_map, cr_map = closure_terms(evd), closure_terms(evr)
        except RecursionError:
            continue
        n += 1
        key = f'PROFILE:{b.path}'
        for span, tcr in cr_map.items():
            tcd = cd_map.get(span)
            ckey = f'PROFILE-CLOSURE:{b.path}:{span[2]}'
            if tcd is None:
                rep.bad('PROFILE', ckey, f'{span[0]}:{span[1]}', 'closure exists only without debug assertions', fn=b.path)
            elif anonymise(T.canon(tcd)) == anonymise(T.canon(tcr)) or anonymise(T.canon(strip_debug_wrappers(tcd))) == anonymise(T.canon(tcr)):
                rep.ok('PROFILE', ckey, f'{span[0]}:{span[1]}', 'closure computes the same canonical term in both configurations', nontrivial=False, fn=b.path)
            else:
                rep.bad('PROFILE', ckey, f'{span[0]}:{span[1]}', f'debug build: closure computes {T.show(tcd)[:240]}',
                        f'release build: {T.show(tcr)[:240]}', fn=b.path, direction='the result depends on the build profile')
        cd, cr = T.canon(td), T.canon(tr)
        cd, cr = anonymise(cd), anonymise(cr)
        if cd == cr:
            rep.ok('PROFILE', key, loc(b.raw), 'computes the same canonical term with and without debug assertions', nontrivial=False, fn=b.path)
            continue
        sd = anonymise(T.canon(strip_debug_wrappers(td)))
        if sd == cr:
            rep.ok('PROFILE', key, loc(b.raw),
                   'differs between the configurations only by the vetted identity wrapper zip(steps, brute_force).map(|(a, _)| a): '
                   'the brute-force enumeration covers 0..=max_offset and the wrapped iterator is consumed only below max_offset, '
                   'so the pairing never truncates the consumed prefix', fn=b.path)
        else:
            rep.bad('PROFILE', key, loc(b.raw), f'debug build computes {T.show(cd)[:300]}', f'release build computes {T.show(cr)[:300]}', fn=b.path,
                    direction='the result depends on the build profile',
                    why='code that exists only with debug assertions reaches the returned value')
    for b in only_dbg:
        rep.ok('PROFILE', f'PROFILE-DBGONLY:{b.path}', loc(b.raw), 'exists only with debug assertions (its callers are compared above)', nontrivial=False, fn=b.path)
    for b in rel.body_list:
        if dbg.body(b.path) is None and not sites.skip_body(b):
            rep.bad('PROFILE', f'PROFILE-RELONLY:{b.path}', loc(b.raw), 'function exists only without debug assertions', fn=b.path)
    return n, len(only_dbg)


def closure_terms(ev):
    """(file, line, ordinal-in-body) -> term of each closure applied to symbolic arguments"""
    out = {}
    done = set()
    rounds = 0
    while rounds < 6:
        rounds += 1
        todo = [k for k in sorted(ev.closures) if k not in done]
        if not todo:
            break
        for k in todo:
            done.add(k)
            c = ev.closures[k]
            node = c.node
            span = (node.get('file'), node.get('line'), f"{node.get('line')}:{node.get('col')}")
            if span in out:
                continue
            args = [T.var(f'X{i}') for i in range(len(node['params']))]
            try:
                out[span] = ev.apply(('clo', k), args)
            except RecursionError:
                out[span] = ('opaque', 'recursion')
    return out


def anonymise(t):
    """closure / loop node numbers differ between the configurations: drop them"""
    if not isinstance(t, tuple):
        return t
    if T.is_lin(t):
        return T.lin(t[1], {anonymise(r): c for r, c in t[2]})
    if t and t[0] in ('clo',):
        return ('clo',)
    if t and t[0] == 'havoc':
        return ('havoc', t[1])
    if t and t[0] in ('loopval', 'item', 'index_of'):
        return (t[0],)
    if t and t[0] == 'elemhavoc':
        return ('elemhavoc', anonymise(t[1]), t[2])
    if t and t[0] == 'opaque':
        return ('opaque', t[1])
    return tuple(anonymise(x) for x in t)


# ---------------------------------------------------------------- debug-only regions

def check_debug_regions(rep, dbg):
    """code under debug_assert*/cfg(debug_assertions) must not assign to bindings of the enclosing function"""
    n = 0
    for b in dbg.body_list:
        if sites.skip_body(b):
            continue
        for node in b.walk():
            macs = node.get('mac') or []
            if not any(m.startswith('debug_assert') for m in macs):
                continue
            if node.get('k') in ('Assign', 'AssignOp'):
                n += 1
                rep.bad('PROFILE', f'PROFILE-ASSIGN:{b.path}', loc(node), 'assignment inside a debug_assert', 'debug-only code has no effect on program state', fn=b.path)
    return n


# ---------------------------------------------------------------- forwarding impls forward everything

MODEL_TRAITS_FWD = ('arrival::ArrivalBound', 'demand::RequestBound', 'demand::AggregateRequestBound', 'supply::SupplyBound',
                    'wcet::JobCostModel')


def check_forwarding(rep, crate):
    """every implementation of a model trait for a wrapper (&T, Box<T>, Rc<T>, generated by auto_impl) forwards EVERY method
    of the trait, including those with a default body: a wrapper that falls back to a default answers differently from
    the value it wraps (e.g. the brute-force default steps_iter does not terminate for a bound with finitely many steps,
    the default service_time ignores a closed form)"""
    n = 0
    for imp in crate.impls:
        tr = imp.get('trait')
        if tr not in MODEL_TRAITS_FWD or not (imp.get('mac') and 'auto_impl' in imp['mac']):
            continue
        t = crate.traits.get(tr)
        if t is None:
            continue
        want = {it['name'] for it in t.get('items', []) if it.get('kind', 'Fn') in ('Fn', 'AssocFn', None) or 'has_default' in it}
        have = {it['name'] for it in imp['items']}
        n += 1
        ty = re.sub(r'/#\d+', '', imp.get('self_ty', '?'))
        key = f"FWD:{tr}:{ty.split('<')[0].split('::')[-1] if '<' in ty else ty}"
        where = f"{imp.get('file')}:{imp.get('line')}"
        missing = sorted(want - have)
        if not missing:
            rep.ok('FWD', key, where, f'impl {tr} for {ty} forwards all {len(want)} methods', fn=imp.get('path'))
        else:
            rep.bad('FWD', key, where, f'impl {tr} for {ty} does not forward {missing}: the wrapper uses the trait default there', 'every method forwarded to the wrapped value',
                    fn=imp.get('path'), direction='a wrapped model answers differently from the model itself',
                    why='the default steps_iter scans all interval lengths and never ends for a bound with finitely many steps (Never, a clone_with_jitter of it); '
                        'the default service_time / cost_of_jobs / least_wcet ignore the closed forms')
    return n


# ---------------------------------------------------------------- debug-only sibling of bw::rta_subchain

def check_bw_brute_force(rep, dbg):
    """the brute-force enumeration zipped onto the production steps (debug builds only) is Lemma 19 over 0..=max_offset:
       eoc: eta(t) != eta(t+1)   [production: steps - 1];   polled cb: t > 0 and eta(t-1) != eta(t)   [production: steps]"""
    from .rta_model import is_tag, search_calls
    from . import rules_ros2 as R2
    path = 'ros2::bw::rta_subchain'
    b = dbg.body(path)
    if b is None:
        rep.bad('ANCHOR', 'ANCHOR:bw:brute', path, 'entry point not found', fn=path)
        return
    ev = Evaluator(dbg)
    top = T.unroot(ev.eval_body(b))
    zips = [x for x in T.subterms(top) if is_tag(x, 'zip')]
    where = loc(b.raw)
    if len(zips) != 1:
        rep.bad('BW-SIB', 'BW-SIB:zip', where, f'{len(zips)} zip stages in the debug configuration', 'production steps zipped with the brute-force enumeration', fn=path)
        return
    brute = T.unroot(zips[0][2])
    mo = search_calls(brute)
    EOC, WL = R2.EOC, R2.WL
    t_ = T.bv(0)
    cb = T.bv(1)
    eta = lambda d: R2.eta(cb, d)
    is_pp = R2.is_pp_cond(R2.F(cb, 'kind'))
    is_eoc = ('ptreq', *sorted([cb, EOC], key=T.key))
    pred_eoc = T.tand(is_eoc, T.tnot(T.eq0(T.sub(eta(t_), eta(T.add(t_, T.const(1)))))))
    pred_cb = T.tand(T.tnot(is_eoc), is_pp, T.cmp('Gt', t_, T.const(0)), T.tnot(T.eq0(T.sub(eta(T.sub(t_, T.const(1))), eta(t_)))))
    want_pred = ('any', ('elems', WL), ('lam', 1, T.tor(pred_eoc, pred_cb)))
    if len(mo) != 1:
        rep.bad('BW-SIB', 'BW-SIB:range', where, 'the brute-force enumeration is not bounded by the max-offset search', '0..=max_offset', fn=path,
                direction='a debug build does not terminate when nothing ever matches; a release build returns')
        return
    want = ('filter', ('range', T.const(0), T.add(T.root(('try', mo[0])), T.const(1))), ('lam', 0, want_pred))
    if T.same(brute, want):
        rep.ok('BW-SIB', 'BW-SIB:lemma19', where, 'brute force enumerates t in 0..=max_offset with eta_eoc(t) != eta_eoc(t+1) or (polled, t>0, eta_cb(t-1) != eta_cb(t)): '
               'the same shifts as the production search space (eoc steps - 1, polled steps + 0)', fn=path)
    else:
        rep.bad('BW-SIB', 'BW-SIB:lemma19', where, f'brute force is {T.show(T.canon(brute))[:400]}', T.show(T.canon(want))[:400], fn=path,
                direction='debug builds assert against a different enumeration than release builds use')
    # the manual check of the first element: brute.peek() == steps.peek().filter(|a| a <= max_offset), and the pairwise check
    prod = T.unroot(zips[0][1])
    mo_t = T.root(('try', mo[0]))
    first_want = ('eq', *sorted([('optfilter', ('peekof', prod), ('lam', 0, T.cmp('Le', T.root(T.bv(0)), mo_t))), ('peekof', want)], key=T.key))
    pair_want = T.tnot(T.eq0(T.sub(T.root(T.fld(T.bv(0), '0')), T.root(T.fld(T.bv(0), '1')))))
    pans = [e for e in ev.events if e['kind'] == 'panic' and e['depth'] == 0 and any('assert_eq' in m for m in (e['node'].get('mac') or []))]
    def accepted(e):
        for c in e['pc']:
            if T.same(T.tnot(first_want), c) or T.same(pair_want, c) or \
                    T.same(T.tnot(T.eq0(T.sub(T.root(T.fld(T.bv(0), '1')), T.root(T.fld(T.bv(0), '0'))))), c):
                return True
        return False
    # (a removed cross-check changes nothing on well-formed input; a cross-check of something else can panic)
    if all(accepted(e) for e in pans):
        rep.ok('BW-SIB', 'BW-SIB:asserts', where, f'{len(pans)} assert_eq! cross-check(s): first elements agree (production first step counted only if <= max_offset) / pairwise equality of the zipped sequences', fn=path)
    else:
        rep.bad('BW-SIB', 'BW-SIB:asserts', where, 'debug cross-checks fire when: ' + ' | '.join(' && '.join(T.show(T.canon(c)) for c in e['pc'])[:260] for e in pans),
                f'{T.show(T.canon(T.tnot(first_want)))[:200]} ; {T.show(pair_want)}', fn=path,
                direction='debug builds panic on well-formed input (or check nothing) when the cross-check compares something else than release builds use')
