"""SPEC / DOM / ERR / LIM rules for the nine dedicated-processor analyses.

Used by C01, C02, C03 (unsafe direction), C06 (exact), C18 (pessimistic
direction) and C19 (sibling reductions)."""

from . import term as T
from .compare import compare, EQ, UNDER, OVER, MIXED
from .report import AnchorMissing
from .rta_model import (ANALYSES, RtaModel, A, X, O, DELTA, DEDICATED, SEARCH, SN, is_tag, search_calls,
                        find_roots)

MODE_TEXT = {
    'safe': 'actual must never be smaller than the equation of the cited analysis',
    'exact': 'actual must equal the equation of the cited analysis',
    'tight': 'actual must never be larger than the equation of the cited analysis',
}


def violates(direction, mode):
    if mode == 'safe':
        return direction in (UNDER, MIXED)
    if mode == 'tight':
        return direction in (OVER, MIXED)
    return direction != EQ


def short(path):
    p = path.split('::')
    return '::'.join(p[:-1])


def judge(rep, rule, key, where, actual, expected, mode, fn, what, invert=False):
    d, notes = compare(actual, expected)
    if d == MIXED:
        # not comparable as written: the two may still be the same value with its conditionals nested differently (a
        # case distinction inside a min / sum on one side, around it on the other) -- decided term by term
        from . import linarith
        try:
            if linarith.terms_equal(T.canon(T.norm_bv(actual), True), T.canon(T.norm_bv(expected), True), fuel=7):
                d, notes = EQ, ['proved equal to the equation term by term (conditionals nested differently)']
        except RecursionError:
            pass
    if invert:
        d = {UNDER: OVER, OVER: UNDER}.get(d, d)
    fact = f'{what} = {T.show(T.norm_bv(actual))}'
    exp = f'{what} = {T.show(T.norm_bv(expected))}'
    if violates(d, mode):
        dirtext = {UNDER: 'smaller than the equation (unsafe direction)',
                   OVER: 'larger than the equation (pessimistic direction)',
                   MIXED: 'not comparable with the equation'}[d]
        rep.bad(rule, key, where, fact, exp, direction=dirtext, fn=fn, why='; '.join(notes)[:600])
    else:
        rep.ok(rule, key, where, fact + ('' if d == EQ else f'   [{d}: tolerated by this property]'), exp, fn=fn)
    return d


def with_af(per_offset, off_calls):
    """replace try(search(.., OFF)) by the symbol AF"""
    AF = T.var('AF')
    m = {}
    for sc in off_calls:
        m[('try', sc)] = AF
    return T.substitute(per_offset, m), AF


def rename_foreach(term, comp):
    fe = comp['foreach']
    if fe is None:
        return term
    return T.substitute(term, {T.bv(fe['depth']): O})


def check_analysis(rep, crate, path, mode, prop):
    spec = ANALYSES[path]
    sh = short(path)
    fn = path
    try:
        m = RtaModel(crate, path)
    except AnchorMissing as ex:
        rep.bad('ANCHOR', f'ANCHOR:{sh}', path, f'cannot recover the analysis structure: {ex.what}',
                'max_response_time(map(search space, per-offset RTA)) with one busy-window search', fn=fn,
                why='fail closed: the rule cannot be evaluated')
        return None
    where = m.where
    try:
        _check(rep, m, spec, sh, mode, prop, where, fn)
    except AnchorMissing as ex:
        rep.bad('ANCHOR', f'ANCHOR:{sh}:{ex.what[:60]}', where, f'cannot recover: {ex.what}', None, fn=fn,
                why='fail closed: the rule cannot be evaluated')
    return m


def _check(rep, m, spec, sh, mode, prop, where, fn):
    fam = spec['family']

    # ---- SPEC-BW: busy-window equation
    bw = m.BW()
    judge(rep, 'SPEC-BW', f'SPEC-BW:{sh}', where, bw, spec['BW'], mode, fn, 'BW(X)')

    # ---- SPEC-OFF / result
    if fam == 'FIFO':
        if m.combiner != 'max':
            rep.bad('COMBINE', f'COMBINE:{sh}', where, f'combiner is {m.combiner}', 'plain maximum over offsets', fn=fn)
        judge(rep, 'SPEC-RES', f'SPEC-RES:{sh}', where, m.per_offset, spec['RESULT'], mode, fn, 'R(A)')
        dflt = getattr(m, 'default', None)
        if dflt is None or dflt != T.const(0):
            rep.bad('COMBINE', f'COMBINE-DEFAULT:{sh}', where,
                    f'result for an empty search space is {T.show(dflt) if dflt is not None else "unwrap (panics)"}',
                    '0', fn=fn, direction='not comparable')
        else:
            rep.ok('COMBINE', f'COMBINE-DEFAULT:{sh}', where, 'empty search space yields 0; otherwise the maximum over all offsets', fn=fn)
    else:
        if m.combiner != 'max_response_time':
            rep.bad('COMBINE', f'COMBINE:{sh}', where, f'combiner is {m.combiner}', 'fixed_point::max_response_time', fn=fn)
        else:
            rep.ok('COMBINE', f'COMBINE:{sh}', where, 'every per-offset result reaches fixed_point::max_response_time', fn=fn)
        off = m.OFF()
        judge(rep, 'SPEC-OFF', f'SPEC-OFF:{sh}', where, off, spec['OFF'], mode, fn, 'OFF_A(X)')
        res, AF = with_af(m.per_offset, m.off_calls)
        if m.per_offset_wrapped != 'ok':
            rep.bad('ERR', f'ERR-OKWRAP:{sh}', where, f'per-offset closure returns {T.show(m.per_offset_raw)[:120]}', 'Ok(F + rem)', fn=fn)
        if spec['result_sat']:
            exp_res = T.add(T.pos(T.sub(AF, A)), spec['rem'])
            # a raw subtraction is the same value whenever it does not underflow; accept both forms here,
            # the underflow question is C20's
            alt = T.add(T.sub(AF, A), spec['rem'])
            d, _ = compare(res, alt)
            if d == EQ:
                exp_res = alt
        else:
            exp_res = T.add(T.sub(AF, A), spec['rem'])
            alt = T.add(T.pos(T.sub(AF, A)), spec['rem'])
            d, _ = compare(res, alt)
            if d == EQ:
                exp_res = alt
        judge(rep, 'SPEC-RES', f'SPEC-RES:{sh}', where, res, exp_res, mode, fn, 'R(A)')

    # ---- PLUMB: supply and limit of every search
    for i, sc in enumerate(m.bw_calls + m.off_calls):
        role = 'BW' if i < len(m.bw_calls) else 'OFF'
        sup, lim = sc[2][0], sc[2][1]
        if sup != DEDICATED:
            rep.bad('PLUMB', f'PLUMB-SUPPLY:{sh}:{role}', where, f'supply of the {role} search is {T.show(sup)}',
                    'supply::Dedicated', fn=fn, direction='not comparable')
        else:
            rep.ok('PLUMB', f'PLUMB-SUPPLY:{sh}:{role}', where, f'{role} search runs on a dedicated processor', fn=fn)
        if T.as_lin(lim) != T.as_lin(spec['limit']):
            rep.bad('LIM', f'LIM:{sh}:{role}', where, f'divergence limit of the {role} search is {T.show(lim)}',
                    f'the limit parameter {T.show(spec["limit"])}, unmodified', fn=fn, direction='not comparable')
        else:
            rep.ok('LIM', f'LIM:{sh}:{role}', where, f'{role} search receives the limit parameter unmodified', fn=fn)

    # ---- ERR: every search result goes through `?`
    for sc in search_calls(m.top):
        wrapped = any(is_tag(x, 'try') and x[1] == sc for x in T.subterms(m.top))
        bare = _has_bare(m.top, sc)
        key = f'ERR:{sh}:{"BW" if sc in m.bw_calls else "OFF"}'
        if bare or not wrapped:
            rep.bad('ERR', key, where, 'a search result is used without `?`', 'search(..)? on every path', fn=fn,
                    direction='not comparable')
        else:
            rep.ok('ERR', key, where, 'search result is consumed by `?` (Err propagates unchanged)', fn=fn)

    # ---- SPACE: components of the search space
    check_space(rep, m, spec, sh, mode, where, fn)

    # ---- DOM: uses of A agree with the search space (losslessness of pruning)
    if mode == 'exact' or prop in ('C06',):
        check_dom(rep, m, spec, sh, where, fn)


def _has_bare(t, sc, under_try=False):
    """does `sc` occur somewhere not directly under a 'try'?"""
    if t == sc:
        return not under_try
    if not isinstance(t, tuple):
        return False
    if is_tag(t, 'try'):
        return _has_bare(t[1], sc, True)
    if T.is_lin(t):
        return any(_has_bare(r, sc, False) for r, _ in t[2])
    return any(_has_bare(x, sc, False) for x in t if isinstance(x, tuple))


def check_space(rep, m, spec, sh, mode, where, fn):
    comps = m.components
    L = None
    if len(m.bw_calls) == 1:
        L = T.root(('try', m.bw_calls[0]))
    matched = set()
    for ci, exp in enumerate(spec['components']):
        name = 'own' if exp['foreach'] is None else 'others'
        found = None
        for j, c in enumerate(comps):
            if j in matched:
                continue
            if (c['foreach'] is None) != (exp['foreach'] is None):
                continue
            if c['foreach'] is not None and c['foreach']['coll'] != ('elems', T.unroot(exp['foreach'])):
                continue
            src = rename_foreach(c['source'], c)
            want = ('elems', T.call('demand::RequestBound::steps_iter', T.unroot(exp['source'])))
            if src == want:
                found = (j, c)
                break
        key = f'SPACE:{sh}:{name}'
        if found is None:
            if mode != 'tight':
                rep.bad('SPACE', key, where,
                        'no component of the search space enumerates the steps of ' + T.show(exp['source'])
                        + '; components found: ' + '; '.join(T.show(rename_foreach(c['source'], c)) for c in comps),
                        'steps_iter of that request bound, shifted, bounded by A < L', fn=fn,
                        direction='offsets are dropped (unsafe direction)')
            continue
        j, c = found
        matched.add(j)
        # shift
        if c['shift'] is None:
            shift = DELTA
        else:
            shift = T.substitute(rename_foreach(c['shift'][2], c), {T.bv(c['shift'][1]): DELTA})
        d, notes = compare(shift, exp['shift'])
        if d != EQ:
            rep.bad('SPACE', key + ':shift', where, f'offset of a step δ is {T.show(shift)}', f'{T.show(exp["shift"])}',
                    fn=fn, direction='offsets are displaced: maximisers can be skipped', why='; '.join(notes))
        else:
            rep.ok('SPACE', key + ':shift', where, f'offset of a step δ is {T.show(shift)}', T.show(exp['shift']), fn=fn)
        # truncating stages
        if c['extra']:
            if mode != 'tight':
                rep.bad('SPACE', key + ':stages', where, f'additional stage(s) {c["extra"]} on the component',
                        'only map(shift) and take_while(A < L)', fn=fn, direction='offsets are dropped (unsafe direction)')
        else:
            rep.ok('SPACE', key + ':stages', where, 'no truncating stage (take/skip/filter/step_by/...) on the component', fn=fn)
        # bound
        if c['bound'] is None:
            rep.bad('SPACE', key + ':bound', where, 'component is not bounded by the busy-window length',
                    'take_while(A < L)', fn=fn, direction='unbounded search space (does not terminate)')
        elif L is not None:
            pred = T.substitute(rename_foreach(c['bound'][2], c), {T.bv(c['bound'][1]): A})
            want = T.cmp('Lt', A, L)
            if pred == want:
                rep.ok('SPACE', key + ':bound', where, f'offsets kept while {T.show(pred)}', T.show(want), fn=fn)
            else:
                from .compare import Cmp
                cc = Cmp()
                b = cc.cmp_bool(pred, want)
                direction = {'stronger': UNDER, 'weaker': OVER}.get(b, MIXED)
                if violates(direction, mode):
                    rep.bad('SPACE', key + ':bound', where, f'offsets kept while {T.show(pred)}', T.show(want), fn=fn,
                            direction={'stronger': 'fewer offsets than A < L (unsafe direction)',
                                       'weaker': 'offsets at or beyond L admitted (pessimistic direction)'}.get(b, 'not comparable'),
                            why='; '.join(cc.notes))
                else:
                    rep.ok('SPACE', key + ':bound', where, f'offsets kept while {T.show(pred)}  [{b}: tolerated by this property]', T.show(want), fn=fn)
        # EDF: merged components must be merged in order, each bounded before the merge
        if c['foreach'] is not None or len(spec['components']) > 1:
            if not any(s in ('merge', 'kmerge') for s in c['stages']):
                rep.bad('SPACE', key + ':merge', where, f'component combined by {c["stages"]}', 'kmerge/merge', fn=fn)
    extra = [c for j, c in enumerate(comps) if j not in matched]
    for c in extra:
        rep.undecided_note('SPACE', f'SPACE:{sh}:extra', where,
                           'additional search-space component ' + T.show(rename_foreach(c['source'], c))
                           + ' (harmless: more offsets below L cannot change the maximum)')


def strip_sat(t):
    """linear part of an expression that may be wrapped in pos()/min{X, .}"""
    t = T.as_lin(t)
    r = T.single_root(t)
    if r is not None and is_tag(r, 'pos'):
        return strip_sat(r[1])
    if r is not None and is_tag(r, 'min'):
        parts = [x for x in r[1] if T.mentions(x, A)]
        if len(parts) == 1:
            return strip_sat(parts[0])
    return t


def check_dom(rep, m, spec, sh, where, fn):
    """every dependence of the per-offset equation on A is through a step function whose steps are in
       the search space with the inverse shift (or is a declared monotone exemption)"""
    if spec['family'] == 'FIFO':
        eq = m.per_offset
    else:
        eq = m.OFF()
    eq = T.norm_bv(eq)
    comps = []
    for c in m.components:
        src = T.unroot(rename_foreach(c['source'], c))
        if is_tag(src, 'elems') and is_tag(src[1], 'call') and src[1][1].endswith('steps_iter'):
            owner = src[1][2][0]
        else:
            owner = src
        shift = DELTA if c['shift'] is None else T.substitute(rename_foreach(c['shift'][2], c), {T.bv(c['shift'][1]): DELTA})
        comps.append((owner, strip_sat_delta(shift)))
    uses = []
    _collect_uses(eq, uses, [])
    n_ok = 0
    for kind, node, ctx in uses:
        if kind == 'sn':
            recv, arg = node[2][0], node[2][1]
            # the receiver may mention the element of an enclosing sum: rename it to `o`
            recv_n = recv
            for lam_d in ctx:
                recv_n = T.substitute(recv_n, {T.bv(lam_d): O})
                arg = T.substitute(arg, {T.bv(lam_d): O})
            la = strip_sat(arg)
            ok = False
            for owner, shift in comps:
                if owner == recv_n:
                    back = T.substitute(la, {A: shift})
                    if T.as_lin(back) == T.as_lin(DELTA):
                        ok = True
                        break
            key = f'DOM:{sh}:{T.show(recv_n)}'
            if ok:
                n_ok += 1
                rep.ok('DOM', key, where, f'{T.show(recv_n)} is evaluated at {T.show(la)}; its steps enter the search space as A = {T.show(shift)}', fn=fn)
            else:
                rep.bad('DOM', key, where,
                        f'{T.show(recv_n)} is evaluated at {T.show(arg)} but no search-space component enumerates its steps with the inverse shift '
                        f'(components: {[(T.show(o), T.show(s)) for o, s in comps]})',
                        'for every use f(A + u) a component steps(f) shifted by -u', fn=fn,
                        direction='pruning to steps is not lossless: a maximiser between the examined offsets can be missed')
        elif kind == 'exempt-minus-A':
            rep.ok('DOM', f'DOM:{sh}:minusA', where,
                   'the equation subtracts A itself: non-increasing in A between steps (declared exemption)', fn=fn)
        elif kind == 'exempt':
            rep.ok('DOM', f'DOM:{sh}:blocking', where,
                   'blocking depends on A only through a filter `D_o > D_t + A`: non-increasing in A (declared exemption)', fn=fn)
        else:
            rep.bad('DOM', f'DOM:{sh}:undeclared', where, f'the per-offset equation depends on A through {T.show(node)[:160]}',
                    'A only as argument of a request-bound function or in the blocking filter', fn=fn,
                    direction='pruning to steps is not justified for this dependence')


def strip_sat_delta(t):
    t = T.as_lin(t)
    r = T.single_root(t)
    if r is not None and is_tag(r, 'pos'):
        return T.as_lin(r[1])
    return t


def _collect_uses(t, out, ctx):
    """find the roots through which A enters a term"""
    if not isinstance(t, tuple) or not T.mentions(t, A):
        return
    if T.is_lin(t):
        for r, c in t[2]:
            if r == A:
                # `- A` (the distance from the offset to the end of the busy window) is non-increasing in A
                out.append(('exempt-minus-A' if c < 0 else 'bare', r, list(ctx)))
            else:
                _collect_uses(r, out, ctx)
        return
    if is_tag(t, 'call') and t[1] == SN:
        if T.mentions(t[2][0], A):
            out.append(('other', t, list(ctx)))
        else:
            out.append(('sn', t, list(ctx)))
        return
    if is_tag(t, 'sum') and is_tag(t[1], 'map') and not T.mentions(t[1][1], A):
        lam = t[1][2]
        _collect_uses(lam[2], out, ctx + [lam[1]])
        return
    if is_tag(t, 'max') and len(t[1]) == 2 and T.const(0) in t[1] and any(is_tag(T.unroot(c), 'maxof') for c in t[1]):
        it = [T.unroot(c) for c in t[1] if is_tag(T.unroot(c), 'maxof')][0][1]
        # maxof(map(filter(elems, pred(A)), value-without-A))
        if is_tag(it, 'map') and not T.mentions(it[2], A) and is_tag(it[1], 'filter') and not T.mentions(it[1][1], A):
            pred = it[1][2][2]
            if _monotone_decreasing_pred(pred):
                out.append(('exempt', t, list(ctx)))
                return
        out.append(('other', t, list(ctx)))
        return
    if is_tag(t, 'pos') or is_tag(t, 'min') or is_tag(t, 'max'):  # (a max{0, maxof(..)} blocking term was handled above)
        for x in (t[1] if isinstance(t[1], tuple) and t[0] in ('min', 'max') else [t[1]]):
            _collect_uses(x, out, ctx)
        return
    out.append(('other', t, list(ctx)))


def _monotone_decreasing_pred(pred):
    """every conjunct that mentions A is `lin <= 0` with a positive coefficient on A"""
    conj = pred[1] if is_tag(pred, 'and') else (pred,)
    for c in conj:
        if not T.mentions(c, A):
            continue
        if not is_tag(c, 'le0'):
            return False
        if T.lin_roots(c[1]).get(A, 0) <= 0:
            return False
        for r, _ in c[1][2]:
            if r != A and T.mentions(r, A):
                return False
    return True
