"""Pretty-printer for facts (debug aid)."""
import json, sys

def pat(p):
    k = p['k']
    if k == 'Bind':
        return f"{p['name']}#{p['id']}" + ("@" + pat(p['sub']) if 'sub' in p else '')
    if k in ('Tuple', 'Or', 'Slice'):
        return '(' + ', '.join(pat(x) for x in p['ps']) + ')'
    if k == 'TupleStruct':
        return p['path'].get('name', '?') + '(' + ', '.join(pat(x) for x in p['ps']) + ')'
    if k == 'Struct':
        return p['path'].get('name', '?') + '{' + ', '.join(f['name'] + ':' + pat(f['p']) for f in p['fields']) + '}'
    if k in ('Ref', 'Deref'):
        return '&' + pat(p['p'])
    if k == 'Lit':
        return str(p['lit'].get('v'))
    if k == 'Path':
        return p['path'].get('name', '?')
    return '_'

def ex(e, ind=0):
    if e is None:
        return 'None'
    k = e['k']
    pad = '  ' * ind
    if k == 'Block':
        out = '{\n'
        for s in e['stmts']:
            if s['k'] == 'Let':
                out += pad + '  let ' + pat(s['pat']) + ' = ' + ex(s['init'], ind + 1) + (' else ' + ex(s['els'], ind + 1) if s.get('els') else '') + ';\n'
            elif s['k'] in ('Expr', 'Semi'):
                out += pad + '  ' + ex(s['e'], ind + 1) + ';\n'
            else:
                out += pad + '  <item>\n'
        if e['expr'] is not None:
            out += pad + '  ' + ex(e['expr'], ind + 1) + '\n'
        return out + pad + '}'
    if k == 'Call':
        f = e.get('callee') or ex(e['f'], ind)
        return f"{f}(" + ', '.join(ex(a, ind) for a in e['args']) + ')'
    if k == 'MethodCall':
        return ex(e['recv'], ind) + '.' + (e.get('callee') or e['name']) + '(' + ', '.join(ex(a, ind) for a in e['args']) + ')'
    if k == 'Binary':
        return '(' + ex(e['l'], ind) + ' ' + e['op'] + ('!' if 'callee' in e else '') + ' ' + ex(e['r'], ind) + ')'
    if k == 'Unary':
        return e['op'] + '(' + ex(e['e'], ind) + ')'
    if k == 'Lit':
        return str(e['lit'].get('v'))
    if k == 'Path':
        if e['res'] == 'Local':
            return f"{e['name']}#{e['id']}"
        return e.get('def', e['name'])
    if k == 'Closure':
        return '|' + ', '.join(pat(p) for p in e['params']) + '| ' + ex(e['body'], ind)
    if k == 'If':
        return 'if ' + ex(e['c'], ind) + ' ' + ex(e['t'], ind) + (' else ' + ex(e['e'], ind) if e.get('e') else '')
    if k == 'Match':
        out = f"match[{e['src']}] " + ex(e['scrut'], ind) + ' {\n'
        for a in e['arms']:
            out += pad + '  ' + pat(a['pat']) + (' if ' + ex(a['guard'], ind + 1) if a.get('guard') else '') + ' => ' + ex(a['body'], ind + 1) + ',\n'
        return out + pad + '}'
    if k == 'Loop':
        return f"loop[{e['src']}] " + ex(e['body'], ind)
    if k == 'Field':
        return ex(e['e'], ind) + '.' + e['name']
    if k == 'Index':
        return ex(e['e'], ind) + '[' + ex(e['i'], ind) + ']'
    if k == 'AddrOf':
        return '&' + ex(e['e'], ind)
    if k in ('DropTemps', 'Use', 'Type'):
        return ex(e['e'], ind)
    if k == 'Cast':
        return '(' + ex(e['e'], ind) + ' as ' + e['ty'] + ')'
    if k == 'Tup':
        return '(' + ', '.join(ex(x, ind) for x in e['es']) + ')'
    if k == 'Array':
        return '[' + ', '.join(ex(x, ind) for x in e['es']) + ']'
    if k == 'Struct':
        return e['path'].get('name', '?') + '{' + ', '.join(f['name'] + ':' + ex(f['e'], ind) for f in e['fields']) + '}'
    if k == 'Assign':
        return ex(e['l'], ind) + ' = ' + ex(e['r'], ind)
    if k == 'AssignOp':
        return ex(e['l'], ind) + ' ' + e['op'] + ' ' + ex(e['r'], ind)
    if k == 'Ret':
        return 'return ' + ex(e.get('e'), ind)
    if k == 'Break':
        return 'break ' + (ex(e['e'], ind) if e.get('e') else '')
    if k == 'LetExpr':
        return 'let ' + pat(e['pat']) + ' = ' + ex(e['init'], ind)
    return '<' + k + '>'

if __name__ == '__main__':
    d = json.load(open(sys.argv[1]))
    for b in d['bodies']:
        if sys.argv[2] in b['path']:
            print('===', b['path'], b['file'], b['line'], b.get('mac'))
            print('params:', [pat(p) for p in b['params']])
            print(ex(b['body']))
