"""Canonical terms.

A term is a hashable nested tuple.  Numeric values are *linear forms*

    ('lin', k, ((root, coeff), ...))        k + sum coeff*root

over opaque roots; every other value (structs, iterators, closures, options)
is a tagged tuple.  Wrapper types, references, clones and boxes are erased
before a term is built, so two expressions that compute the same value by the
crate's own conversion functions normalise to the same term.

Nothing here looks at source text.
"""

from fractions import Fraction


def key(t):
    return repr(t)


# ------------------------------------------------------------------ linear forms

def lin(k=0, roots=None):
    items = []
    if roots:
        for r, c in roots.items():
            if c != 0:
                items.append((r, c))
    items.sort(key=lambda rc: key(rc[0]))
    return ('lin', k, tuple(items))


def is_lin(t):
    return isinstance(t, tuple) and len(t) == 3 and t[0] == 'lin'


def const(k):
    return lin(k)


def _is_slice(x):
    return isinstance(x, tuple) and len(x) == 3 and x[0] == 'idx' and isinstance(x[2], tuple) and len(x[2]) == 3 and x[2][0] == 'range' \
        and is_lin(x[2][1]) and (x[2][2] == ('inf',) or is_lin(x[2][2]))


def _slice_norm(r):
    """a sub-slice v[lo..hi] is not a value of its own: its length is hi - lo (the slicing itself checks lo <= hi <= len(v)),
    its i-th element is v[lo + i]"""
    if isinstance(r, tuple) and len(r) == 2 and r[0] == 'len' and _is_slice(r[1]):
        _, v, (_, lo, hi) = r[1]
        return sub(hi, lo) if hi != ('inf',) else sub(root(('len', v)), lo)
    if isinstance(r, tuple) and len(r) == 3 and r[0] == 'idx' and _is_slice(r[1]) and is_lin(r[2]):
        _, v, (_, lo, hi) = r[1]
        return root(('idx', v, add(lo, r[2])))
    return None


def root(r):
    """Wrap an arbitrary term as a numeric value."""
    if is_lin(r):
        return r
    if isinstance(r, tuple) and r and r[0] in ('len', 'idx'):
        n = _slice_norm(r)
        if n is not None:
            return n
    return lin(0, {r: 1})


def as_lin(t):
    return t if is_lin(t) else root(t)


def lin_const(t):
    return t[1]


def lin_roots(t):
    return dict(t[2])


def is_const(t):
    return is_lin(t) and not t[2]


def single_root(t):
    """If t is exactly 1*root + 0 return the root, else None."""
    if is_lin(t) and t[1] == 0 and len(t[2]) == 1 and t[2][0][1] == 1:
        return t[2][0][0]
    return None


def unroot(t):
    r = single_root(t)
    return r if r is not None else t


def add(a, b):
    a, b = as_lin(a), as_lin(b)
    d = lin_roots(a)
    for r, c in b[2]:
        d[r] = d.get(r, 0) + c
    return lin(a[1] + b[1], d)


def neg(a):
    a = as_lin(a)
    return lin(-a[1], {r: -c for r, c in a[2]})


def sub(a, b):
    return add(a, neg(b))


def scale(a, k):
    a = as_lin(a)
    return lin(a[1] * k, {r: c * k for r, c in a[2]})


def mul(a, b):
    a, b = as_lin(a), as_lin(b)
    if is_const(a):
        return scale(b, a[1])
    if is_const(b):
        return scale(a, b[1])
    pair = sorted([a, b], key=key)
    return root(('mul', pair[0], pair[1]))


def pos(a):
    """max(0, a): the value of a saturating subtraction."""
    a = as_lin(a)
    if is_const(a):
        return const(max(0, a[1]))
    # every root is non-negative: a form without negative coefficients and a
    # non-negative constant cannot saturate
    if a[1] >= 0 and all(c >= 0 for _, c in a[2]):
        return a
    return root(('pos', a))


def tmin(*xs):
    xs = [as_lin(x) for x in xs]
    flat = []
    for x in xs:
        r = single_root(x)
        if r is not None and isinstance(r, tuple) and r and r[0] == 'min':
            flat.extend(r[1])
        else:
            flat.append(x)
    uniq = sorted(set(flat), key=key)
    uniq = _drop_dominated(uniq, keep_smaller=True)
    if len(uniq) == 1:
        return uniq[0]
    if all(is_const(u) for u in uniq):
        return const(min(u[1] for u in uniq))
    return root(('min', tuple(uniq)))


def _drop_dominated(forms, keep_smaller):
    """of two forms that differ by a constant only one can be the minimum / maximum"""
    out = []
    for f in forms:
        dominated = False
        for g in forms:
            if g is f or g[2] != f[2] or g[1] == f[1]:
                continue
            if (g[1] < f[1]) == keep_smaller:
                dominated = True
        if not dominated:
            out.append(f)
    return out


def tmax(*xs):
    xs = [as_lin(x) for x in xs]
    flat = []
    for x in xs:
        r = single_root(x)
        if r is not None and isinstance(r, tuple) and r and r[0] == 'max':
            flat.extend(r[1])
        else:
            flat.append(x)
    uniq = sorted(set(flat), key=key)
    uniq = _drop_dominated(uniq, keep_smaller=False)
    if len(uniq) == 1:
        return uniq[0]
    if all(is_const(u) for u in uniq):
        return const(max(u[1] for u in uniq))
    return root(('max', tuple(uniq)))


def div(a, b):
    a, b = as_lin(a), as_lin(b)
    if a == const(0):
        return const(0)       # 0 / b (b = 0 panics in every profile; not a value)
    if is_const(a) and is_const(b) and b[1] != 0:
        return const(a[1] // b[1])
    return root(('div', a, b))


def rem(a, b):
    a, b = as_lin(a), as_lin(b)
    if a == const(0):
        return const(0)
    if is_const(a) and is_const(b) and b[1] != 0:
        return const(a[1] % b[1])
    # one representation of the remainder: a % b  ==  a - (a / b) * b
    return sub(a, mul(div(a, b), b))


# ------------------------------------------------------------------ booleans

TRUE = ('bool', True)
FALSE = ('bool', False)


def le0(a):
    """a <= 0"""
    a = as_lin(a)
    if is_const(a):
        return TRUE if a[1] <= 0 else FALSE
    return ('le0', a)


def known_nonneg(a, fuel=3):
    """a form that is >= 0 for every valuation: non-negative coefficients over non-negative roots, possibly plus
    multiples of remainders  x - (x / b) * b"""
    a = as_lin(a)
    if a[1] >= 0 and all(c >= 0 for _, c in a[2]):
        return True
    if fuel <= 0:
        return False
    for r, c in a[2]:
        if c < 0 and isinstance(r, tuple) and r and r[0] == 'mul':
            for f, g in ((r[1], r[2]), (r[2], r[1])):
                q = single_root(as_lin(f))
                if isinstance(q, tuple) and q and q[0] == 'div' and as_lin(q[2]) == as_lin(g):
                    rest = sub(a, scale(sub(as_lin(q[1]), root(r)), -c))      # a = rest + (-c) * (x - (x/b)*b)
                    if known_nonneg(rest, fuel - 1):
                        return True
    return False


def eq0(a):
    a = as_lin(a)
    if is_const(a):
        return TRUE if a[1] == 0 else FALSE
    # every root is a non-negative integer: a form that is known to be >= 0 is zero iff it is <= 0
    if known_nonneg(a):
        return le0(a)
    if known_nonneg(neg(a)):
        return le0(neg(a))
    # normalise sign: first root coefficient positive
    if a[2] and a[2][0][1] < 0:
        a = neg(a)
    return ('eq0', a)


def tnot(b):
    if b == TRUE:
        return FALSE
    if b == FALSE:
        return TRUE
    if isinstance(b, tuple) and b[0] == 'not':
        return b[1]
    if isinstance(b, tuple) and b[0] == 'le0':
        # not (a <= 0)  <=>  a >= 1  <=>  1 - a <= 0
        return le0(sub(const(1), b[1]))
    if isinstance(b, tuple) and b[0] == 'and':
        return tor(*[tnot(x) for x in b[1]])
    if isinstance(b, tuple) and b[0] == 'or':
        return tand(*[tnot(x) for x in b[1]])
    return ('not', b)


def cmp(op, a, b):
    """canonical comparison of two numeric terms"""
    if op == 'Lt':
        return le0(add(sub(a, b), const(1)))
    if op == 'Le':
        return le0(sub(a, b))
    if op == 'Gt':
        return le0(add(sub(b, a), const(1)))
    if op == 'Ge':
        return le0(sub(b, a))
    if op == 'Eq':
        return eq0(sub(a, b))
    if op == 'Ne':
        return tnot(eq0(sub(a, b)))
    raise ValueError(op)


def tand(*bs):
    flat = []
    for b in bs:
        if b == TRUE:
            continue
        if b == FALSE:
            return FALSE
        if isinstance(b, tuple) and b[0] == 'and':
            flat.extend(b[1])
        else:
            flat.append(b)
    uniq = sorted(set(flat), key=key)
    if not uniq:
        return TRUE
    if len(uniq) == 1:
        return uniq[0]
    return ('and', tuple(uniq))


def tor(*bs):
    flat = []
    for b in bs:
        if b == FALSE:
            continue
        if b == TRUE:
            return TRUE
        if isinstance(b, tuple) and b[0] == 'or':
            flat.extend(b[1])
        else:
            flat.append(b)
    uniq = sorted(set(flat), key=key)
    if not uniq:
        return FALSE
    if len(uniq) == 1:
        return uniq[0]
    return ('or', tuple(uniq))


BOOL_TAGS = ('bool', 'le0', 'eq0', 'not', 'and', 'or', 'is_err', 'is_ok', 'is_some', 'is_none', 'matches', 'ptreq',
             'eq', 'any', 'all', 'fcmp')


def simplify_under(c, known):
    """simplify the condition c given the set of conditions `known` that hold"""
    facts = set()
    for k in known:
        if isinstance(k, tuple) and k and k[0] == 'and':
            facts.update(k[1])
        else:
            facts.add(k)

    def simp(x):
        x = ctor_matches(x)
        if x in facts:
            return TRUE
        if tnot(x) in facts:
            return FALSE
        if isinstance(x, tuple) and x:
            if x[0] == 'and':
                return tand(*[simp(y) for y in x[1]])
            if x[0] == 'or':
                return tor(*[simp(y) for y in x[1]])
            if x[0] == 'not':
                return tnot(simp(x[1]))
        return x
    return simp(c)


def is_bool(t):
    return isinstance(t, tuple) and bool(t) and t[0] in BOOL_TAGS


def ind(b):
    """bool as integer"""
    if b == TRUE:
        return const(1)
    if b == FALSE:
        return const(0)
    nb = tnot(b)
    if key(nb) < key(b):
        return sub(const(1), root(('ind', nb)))     # one orientation per condition: [c] = 1 - [!c]
    return root(('ind', b))


NUMERIC_ROOT_TAGS = ('p', 'v', 'bv', 'f', 'call', 'case', 'idx', 'havoc', 'try', 'unwrap', 'optor', 'pos', 'min', 'max',
                     'sum', 'len', 'count', 'item', 'cp', 'mul', 'div', 'rem', 'ind')


def _numeric_root(t):
    return isinstance(t, tuple) and bool(t) and t[0] in NUMERIC_ROOT_TAGS


_CTOR_KIND = {'some': 'Some', 'none': 'None', 'ok': 'Ok', 'err': 'Err'}


def ctor_matches(c):
    """`matches(Some(x), Some)` is true, `matches(None, Some)` false, .. (a pattern test on a constructor value), inside
    and / or / not"""
    if not isinstance(c, tuple) or not c:
        return c
    if c[0] == 'matches' and len(c) == 3 and isinstance(c[1], tuple) and c[1] and c[1][0] in _CTOR_KIND and c[2] in _CTOR_KIND.values():
        return TRUE if _CTOR_KIND[c[1][0]] == c[2] else FALSE
    if c[0] == 'not' and len(c) == 2:
        x = ctor_matches(c[1])
        return tnot(x) if x is not c[1] else c
    if c[0] in ('and', 'or') and len(c) == 2:
        xs = [ctor_matches(x) for x in c[1]]
        if any(x is not y for x, y in zip(xs, c[1])):
            return tand(*xs) if c[0] == 'and' else tor(*xs)
    return c


def ite(c, t, e):
    c = ctor_matches(c)
    if c == TRUE:
        return t
    if c == FALSE:
        return e
    if t == e:
        return t
    # one orientation per condition: `if c {t} else {e}` and `if !c {e} else {t}` are the same term
    nc = tnot(c)
    if key(nc) < key(c):
        c, t, e = nc, e, t
    if is_lin(t) or is_lin(e) or (_numeric_root(t) and _numeric_root(e)):
        t, e = as_lin(t), as_lin(e)
        # guarded-subtraction idiom: if d >= 1 (or d >= 0) { e + d } else { e }
        d = sub(t, e)
        if c == le0(sub(const(1), d)) or c == le0(neg(d)):
            return add(e, pos(d))
        d2 = sub(e, t)
        nc = tnot(c)
        if nc == le0(sub(const(1), d2)) or nc == le0(neg(d2)):
            return add(t, pos(d2))
        # branches that differ by a constant k:  if c {e + k} else {e}  ==  e + k * [c]
        if is_const(d) and d[1] != 0:
            return add(e, scale(ind(c), d[1]))
        # if x >= 1 {x * y} else {0}  ==  x * y   (x is a non-negative integer)
        if e == const(0):
            r = single_root(t)
            if isinstance(r, tuple) and r and r[0] == 'mul':
                for f in (r[1], r[2]):
                    if c == le0(sub(const(1), as_lin(f))):
                        return t
        if t == const(0):
            r = single_root(e)
            if isinstance(r, tuple) and r and r[0] == 'mul':
                for f in (r[1], r[2]):
                    if c == le0(as_lin(f)):
                        return e
        # if t <= e {t} else {e}  (or t < e)  is the minimum of the two
        if c == le0(d) or c == le0(add(d, const(1))):
            return tmin(t, e)
        if nc == le0(d2) or nc == le0(add(d2, const(1))):
            return tmin(t, e)
        return root(('ite', c, t, e))
    if is_bool(t) and is_bool(e):
        return tor(tand(c, t), tand(tnot(c), e))
    # if c {Ok(a)} else {Ok(b)}  ==  Ok(if c {a} else {b})   (likewise Some / Err)
    if isinstance(t, tuple) and isinstance(e, tuple) and len(t) == 2 and len(e) == 2 and t[0] == e[0] and t[0] in ('ok', 'some', 'err'):
        return (t[0], ite(c, t[1], e[1]))
    return ('ite', c, t, e)


# ------------------------------------------------------------------ generic

def call(callee, *args):
    return ('call', callee, tuple(args))


def fld(base, name):
    if isinstance(base, tuple) and base and base[0] == 'struct':
        for n, v in base[2]:
            if n == name:
                return v
    if isinstance(base, tuple) and base and base[0] == 'tup' and name.isdigit():
        return base[1][int(name)]
    if isinstance(base, tuple) and base and base[0] == 'upd':
        # a field of a copy-with-update: the updated value, or the field of the original
        for n, v in base[2]:
            if n == name:
                return v
        return fld(base[1], name)
    return ('f', unroot(base), name)


def struct(path, fields):
    return ('struct', path, tuple(sorted(fields.items())))


def tup(*xs):
    return ('tup', tuple(xs))


def proj(base, i):
    if isinstance(base, tuple) and base and base[0] == 'tup':
        return base[1][i]
    return ('f', unroot(base), str(i))


def param(i):
    return ('p', i)


def var(name):
    return ('v', name)


def bv(depth):
    return ('bv', depth)


# ------------------------------------------------------------------ traversal

def subterms(t):
    yield t
    if isinstance(t, tuple):
        for x in t:
            if isinstance(x, tuple):
                yield from subterms(x)


def contains(t, pred):
    return any(pred(x) for x in subterms(t))


def mentions(t, needle):
    return any(x == needle for x in subterms(t))


def substitute(t, mapping):
    """Replace sub-terms (roots) by other terms, renormalising linear forms.  Capture-avoiding for the
    bound variable of a lambda: ('bv', d) is not replaced below a ('lam', d, ..) that rebinds it."""
    if t in mapping:
        return mapping[t]
    if not isinstance(t, tuple):
        return t
    if is_lin(t):
        acc = const(t[1])
        for r, c in t[2]:
            acc = add(acc, scale(as_lin(substitute(r, mapping)), c))
        return acc
    if len(t) == 3 and t[0] == 'lam' and ('bv', t[1]) in mapping:
        inner = {k: v for k, v in mapping.items() if k != ('bv', t[1])}
        return ('lam', t[1], substitute(t[2], inner) if inner else t[2])
    new = tuple(substitute(x, mapping) for x in t)
    return renorm(new)


def shift_binders(t, floor, offset, bound=frozenset()):
    """rename every binder `lam d` with d >= floor (and its bound occurrences) to d + offset; free variables stay"""
    if not isinstance(t, tuple) or not t or offset == 0:
        return t
    if len(t) == 2 and t[0] == 'bv' and isinstance(t[1], int):
        return ('bv', t[1] + offset) if t[1] in bound else t
    if is_lin(t):
        acc = const(t[1])
        for r, c in t[2]:
            acc = add(acc, scale(as_lin(shift_binders(r, floor, offset, bound)), c))
        return acc
    if len(t) == 3 and t[0] in ('lam', 'lam2') and isinstance(t[1], int):
        if t[1] >= floor:
            nb = bound | ({t[1]} if t[0] == 'lam' else {t[1], t[1] + 1})
            return (t[0], t[1] + offset, shift_binders(t[2], floor, offset, nb))
        return (t[0], t[1], shift_binders(t[2], floor, offset, bound))
    return renorm(tuple(shift_binders(x, floor, offset, bound) for x in t))


def renorm(t):
    """Re-apply smart constructors at the top of a rebuilt term."""
    if not isinstance(t, tuple) or not t:
        return t
    tag = t[0]
    try:
        if tag == 'pos':
            return unroot(pos(t[1]))
        if tag == 'min':
            return unroot(tmin(*t[1]))
        if tag == 'max':
            return unroot(tmax(*t[1]))
        if tag == 'le0':
            return le0(t[1])
        if tag == 'eq0':
            return eq0(t[1])
        if tag == 'not':
            return tnot(t[1])
        if tag == 'and':
            return tand(*t[1])
        if tag == 'or':
            return tor(*t[1])
        if tag == 'ite':
            return unroot(ite(t[1], t[2], t[3]))
        if tag == 'ind':
            return unroot(ind(t[1]))
        if tag == 'mul':
            return unroot(mul(t[1], t[2]))
        if tag == 'div':
            return unroot(div(t[1], t[2]))
        if tag == 'rem':
            return unroot(rem(t[1], t[2]))
        if tag == 'f':
            return fld(t[1], t[2])
        if tag == 'call':
            return ('call', t[1], tuple(unroot(a) for a in t[2]))
        if tag == 'tup':
            return t
        if tag == 'idx' and isinstance(t[1], tuple) and t[1] and t[1][0] == 'tup' and is_lin(t[2]) and is_const(t[2]) \
                and 0 <= t[2][1] < len(t[1][1]):
            return unroot(t[1][1][t[2][1]])      # a constant index into a window / array literal
    except Exception:
        return t
    return t


# ------------------------------------------------------------------ printing

def show(t, top=True):
    if not isinstance(t, tuple):
        return str(t)
    if not t:
        return '()'
    tag = t[0]
    if tag == 'lin':
        parts = []
        for r, c in t[2]:
            s = show(r, False)
            if c == 1:
                parts.append('+ ' + s)
            elif c == -1:
                parts.append('- ' + s)
            elif c < 0:
                parts.append(f'- {-c}*{s}')
            else:
                parts.append(f'+ {c}*{s}')
        if t[1] != 0 or not parts:
            parts.append(('+ ' if t[1] >= 0 else '- ') + str(abs(t[1])))
        s = ' '.join(parts)
        if s.startswith('+ '):
            s = s[2:]
        return s if top or len(parts) == 1 else '(' + s + ')'
    if tag == 'p':
        return f'p{t[1]}'
    if tag == 'v':
        return str(t[1])
    if tag == 'bv':
        return f'${t[1]}'
    if tag == 'f':
        return show(t[1], False) + '.' + t[2]
    if tag == 'call':
        name = t[1].split('::')[-1] if isinstance(t[1], str) else show(t[1])
        return name + '(' + ', '.join(show(a) for a in t[2]) + ')'
    if tag == 'struct':
        return t[1].split('::')[-1] + '{' + ', '.join(n + ': ' + show(v) for n, v in t[2]) + '}'
    if tag == 'tup':
        return '(' + ', '.join(show(x) for x in t[1]) + ')'
    if tag == 'pos':
        return 'pos(' + show(t[1]) + ')'
    if tag in ('min', 'max'):
        return tag + '{' + ', '.join(show(x) for x in t[1]) + '}'
    if tag == 'le0':
        return '[' + show(t[1]) + ' <= 0]'
    if tag == 'eq0':
        return '[' + show(t[1]) + ' == 0]'
    if tag == 'not':
        return '!' + show(t[1], False)
    if tag in ('and', 'or'):
        return '(' + (' && ' if tag == 'and' else ' || ').join(show(x, False) for x in t[1]) + ')'
    if tag == 'bool':
        return str(t[1]).lower()
    if tag == 'ite':
        return 'if ' + show(t[1]) + ' {' + show(t[2]) + '} else {' + show(t[3]) + '}'
    if tag == 'ind':
        return 'ind' + show(t[1], False)
    if tag == 'lam':
        return 'λ$' + str(t[1]) + '. ' + show(t[2])
    if tag == 'lam2':
        return 'λ$' + str(t[1]) + ',$' + str(t[1] + 1) + '. ' + show(t[2])
    if tag == 'match':
        return 'match ' + show(t[1]) + ' {' + '; '.join(
            str(a[0]).split('::')[-1] + (' if ' + show(a[1]) if a[1] is not None else '') + ' => ' + show(a[2]) for a in t[2]) + '}'
    if not isinstance(tag, str):
        return '(' + ', '.join(show(x) for x in t) + ')'
    if tag in ('mul', 'div', 'rem'):
        op = {'mul': '*', 'div': '/', 'rem': '%'}[tag]
        return '(' + show(t[1], False) + ' ' + op + ' ' + show(t[2], False) + ')'
    return tag + '(' + ', '.join(show(x) for x in t[1:]) + ')'


# ------------------------------------------------------------------ bound variables

def bv_indices(t):
    out = set()
    for x in subterms(t):
        if isinstance(x, tuple) and len(x) == 2 and x[0] == 'bv' and isinstance(x[1], int):
            out.add(x[1])
        if isinstance(x, tuple) and len(x) == 3 and x[0] == 'lam' and isinstance(x[1], int):
            out.add(x[1])
    return out


def shift_bvs(t, delta):
    if delta == 0 or not isinstance(t, tuple):
        return t
    if len(t) == 2 and t[0] == 'bv' and isinstance(t[1], int):
        return ('bv', t[1] + delta)
    if len(t) == 3 and t[0] == 'lam' and isinstance(t[1], int):
        return ('lam', t[1] + delta, shift_bvs(t[2], delta))
    if is_lin(t):
        return lin(t[1], {shift_bvs(r, delta): c for r, c in t[2]})
    return tuple(shift_bvs(x, delta) for x in t)


def norm_bv(t):
    """Renumber bound variables so that the outermost binder of t is $0."""
    idx = bv_indices(t)
    if not idx:
        return t
    return shift_bvs(t, -min(idx))


# ------------------------------------------------------------------ canonical form

ENUMS = {}      # enum path -> variant names; filled from the ADT facts by the evaluator (Option / Result are built in)


def register_enums(adts):
    for path, adt in adts.items():
        if adt.get('kind') == 'Enum':
            ENUMS[path] = [v['name'] for v in adt['variants']]


def _atom_universe(atom):
    """(scrutinee, variant, all variants) of a matches-atom, or None"""
    v = atom[2]
    if v == 'Some':
        return atom[1], 'Some', ['None', 'Some']
    if v == 'Ok':
        return atom[1], 'Ok', ['Err', 'Ok']
    if '::' in v:
        enum_path, name = v.rsplit('::', 1)
        if enum_path in ENUMS:
            return atom[1], name, sorted(ENUMS[enum_path])
    return None


def _match_atoms(c, out):
    """collect matches-atoms of a condition that is a boolean combination of them only; False if anything else occurs"""
    if c in (TRUE, FALSE):
        return True
    if isinstance(c, tuple) and c:
        if c[0] == 'matches':
            if _atom_universe(c) is None:
                return False
            out.add(c)
            return True
        if c[0] == 'not':
            return _match_atoms(c[1], out)
        if c[0] in ('and', 'or'):
            return all(_match_atoms(x, out) for x in c[1])
    return False


def enum_norm(t, fuel=6):
    """Conditionals whose conditions only test enum variants are decision trees over those variants; write them as the
    reduced ordered tree (scrutinees in key order, variants in name order, equal subtrees merged), so that differently
    ordered / nested / flattened `match`es that compute the same function are the same term."""
    if not isinstance(t, tuple) or not t:
        return t
    if is_lin(t):
        acc = const(t[1])
        for r, c in t[2]:
            acc = add(acc, scale(as_lin(enum_norm(r, fuel)), c))
        return acc
    if t[0] == 'ite' and fuel > 0:
        atoms = set()
        leaves_ok = _collect_tree_atoms(t, atoms)
        if leaves_ok and atoms:
            scruts = {}
            for a in atoms:
                x, v, uni = _atom_universe(a)
                scruts[x] = uni
            order = sorted(scruts, key=key)
            if 1 <= len(order) <= 3:
                return _build_tree(t, order, scruts, {}, fuel)
    return tuple(enum_norm(x, fuel) for x in t)


def _collect_tree_atoms(t, atoms):
    """walk an ite-tree whose conditions are variant tests; leaves are anything else"""
    if isinstance(t, tuple) and t and t[0] == 'ite':
        if not _match_atoms(t[1], atoms):
            return False
        for br in (t[2], t[3]):
            b = unroot(br)
            if isinstance(b, tuple) and b and b[0] == 'ite':
                sub = set()
                if _collect_tree_atoms(b, sub):
                    atoms.update(sub)
        return True
    return True


def _specialise(t, world):
    """value of the ite-tree t in a world {scrutinee: variant}; sub-trees on other conditions are kept"""
    b = unroot(t)
    if isinstance(b, tuple) and b and b[0] == 'ite':
        atoms = set()
        if _match_atoms(b[1], atoms):
            mp = {}
            undecided = False
            for a in atoms:
                x, v, uni = _atom_universe(a)
                if x in world:
                    mp[a] = TRUE if world[x] == v else FALSE
                else:
                    undecided = True
            if not undecided:
                c = substitute(b[1], mp)
                if c == TRUE:
                    return _specialise(b[2], world)
                if c == FALSE:
                    return _specialise(b[3], world)
    return t


def _build_tree(t, order, scruts, world, fuel):
    if not order:
        return enum_norm(_specialise(t, world), fuel - 1)
    x, rest = order[0], order[1:]
    subs = []
    for v in scruts[x]:
        w = dict(world)
        w[x] = v
        subs.append((v, _build_tree(t, rest, scruts, w, fuel)))
    if all(as_lin(s) == as_lin(subs[0][1]) if (is_lin(s) or is_lin(subs[0][1])) else s == subs[0][1] for _, s in subs):
        return subs[0][1]
    # group variants with equal subtrees; the group containing the last variant (in name order) becomes the default
    res = subs[-1][1]
    for v, sub in reversed(subs[:-1]):
        same = (as_lin(sub) == as_lin(res)) if (is_lin(sub) or is_lin(res)) else sub == res
        if same:
            continue
        enum_path = None
        for p_, vs in list(ENUMS.items()) + [('Option', ['None', 'Some']), ('Result', ['Err', 'Ok'])]:
            if sorted(vs) == scruts[x]:
                enum_path = p_
                break
        if enum_path == 'Option':
            atom = ('matches', x, 'Some') if v == 'Some' else tnot(('matches', x, 'Some'))
        elif enum_path == 'Result':
            atom = ('matches', x, 'Ok') if v == 'Ok' else tnot(('matches', x, 'Ok'))
        else:
            atom = ('matches', x, f'{enum_path}::{v}')
        res = ite(atom, sub, res)
    return res


def canon(t, minmax=False):
    """One representation per value: a linear form that is just `1*root + 0` is written as the root itself
    wherever it occurs inside another term; bound variables are numbered by binder nesting; decision trees over enum
    variants are written in reduced ordered form.  With `minmax`, `b + pos(a - b)` (however oriented, however it was
    written: saturating_sub, a guarded subtraction, `if a > b {a} else {b}`) is written max{a, b}, and
    `a - pos(a - b)` is written min{a, b}."""
    return _canon(enum_norm(_canon(alpha(t), minmax)), minmax)


def _canon(t, minmax=False):
    if not isinstance(t, tuple):
        return t
    if is_lin(t):
        acc = const(t[1])
        for r, c in t[2]:
            acc = add(acc, scale(as_lin(_canon(r, minmax)), c))
        if minmax:
            ps = [(r, c) for r, c in acc[2] if isinstance(r, tuple) and r and r[0] == 'pos']
            if len(ps) == 1 and ps[0][1] in (1, -1):
                r, c = ps[0]
                base = sub(acc, scale(root(r), c))
                d = as_lin(r[1])
                acc = tmax(add(base, d), base) if c == 1 else tmin(base, sub(base, d))
        r = single_root(acc)
        return r if r is not None else acc
    return tuple(_canon(x, minmax) for x in t)


def same(a, b, minmax=False):
    return canon(a, minmax) == canon(b, minmax)


def alpha(t, env=None, depth=0):
    """rename bound variables by binder nesting depth (free ones keep their index, shifted past the bound range)"""
    if env is None:
        env = {}
    if not isinstance(t, tuple):
        return t
    if len(t) == 2 and t[0] == 'bv' and isinstance(t[1], int):
        return ('bv', env[t[1]]) if t[1] in env else t
    if len(t) == 3 and t[0] == 'lam' and isinstance(t[1], int):
        d = t[1]
        env2 = dict(env)
        env2[d] = depth
        return ('lam', depth, alpha(t[2], env2, depth + 1))
    if len(t) == 3 and t[0] == 'lam2' and isinstance(t[1], int):
        d = t[1]
        env2 = dict(env)
        env2[d] = depth
        env2[d + 1] = depth + 1
        return ('lam2', depth, alpha(t[2], env2, depth + 2))
    if is_lin(t):
        return lin(t[1], {alpha(r, env, depth): c for r, c in t[2]})
    return tuple(alpha(x, env, depth) for x in t)
