"""Collecting rule instances, violations, known findings; writing evidence."""

import hashlib
import json
import os
import re
import time

VERIF = os.path.dirname(os.path.dirname(os.path.abspath(__file__)))
KNOWN = os.path.join(VERIF, 'KNOWN_FINDINGS.txt')


class AnchorMissing(Exception):
    """A rule could not find the construct it is about (fail closed)."""

    def __init__(self, what, where=None):
        super().__init__(what)
        self.what = what
        self.where = where


def load_known(prop):
    """Open findings for `prop`: key -> description.  `fixed:` lines suppress nothing."""
    out = {}
    if not os.path.exists(KNOWN):
        return out
    for line in open(KNOWN):
        line = line.strip()
        if not line.startswith('finding:'):
            continue
        m = re.match(r'finding:\s+property=(\S+)\s+key=(.*?)\s+::\s+(.*)$', line)
        if m and m.group(1) == prop:
            out[m.group(2)] = m.group(3)
    return out


class Report:
    def __init__(self, prop, tier, seed):
        self.prop = prop
        self.tier = tier
        self.seed = seed
        self.t0 = time.time()
        self.instances = []     # dicts
        self.violations = []
        self.known_hits = []
        self.known = load_known(prop)
        self.rules = {}
        self.functions = set()
        self.assumptions = []
        self.floors = {}
        self.fixtures = {}
        self.undecided = []
        self.extra = {}
        self.infra_errors = []

    # -- recording -------------------------------------------------------------
    def rule(self, rid, text):
        self.rules[rid] = text

    def assume(self, text):
        if text not in self.assumptions:
            self.assumptions.append(text)

    def ok(self, rule, key, where, fact, expected=None, nontrivial=True, fn=None):
        self.instances.append(dict(rule=rule, key=key, where=where, fact=fact, expected=expected,
                                   verdict='holds', nontrivial=nontrivial))
        if fn:
            self.functions.add(fn)

    def bad(self, rule, key, where, fact, expected=None, direction=None, fn=None, why=None):
        """A rule instance that does not hold.  Known findings are matched by exact key."""
        inst = dict(rule=rule, key=key, where=where, fact=fact, expected=expected,
                    verdict='violated', direction=direction, nontrivial=True, why=why)
        self.instances.append(inst)
        if fn:
            self.functions.add(fn)
        if key in self.known:
            inst['verdict'] = 'known-finding'
            if key not in [k for k, _, _ in self.known_hits]:
                self.known_hits.append((key, self.known[key], where))
        else:
            self.violations.append(inst)

    def undecided_note(self, rule, key, where, fact):
        self.undecided.append(dict(rule=rule, key=key, where=where, fact=fact))

    def floor(self, name, found, minimum, where='(crate)'):
        """Vacuity guard: fewer instances than confirmed by hand is a failure."""
        self.floors[name] = dict(found=found, floor=minimum)
        if found < minimum:
            self.bad('FLOOR', f'FLOOR:{name}', where,
                     f'only {found} instance(s) of {name} found', f'at least {minimum}',
                     why='an anchor of this rule disappeared; the rule would pass vacuously')

    def fixture(self, name, fired):
        self.fixtures[name] = bool(fired)
        if not fired:
            self.infra_errors.append(f'positive control {name} did not fire')

    # -- output ----------------------------------------------------------------
    def finish(self, explanation, level='other'):
        evdir = os.environ.get('RTA_EVIDENCE_DIR') or os.path.join(VERIF, 'evidence')
        os.makedirs(os.path.join(evdir, 'violations'), exist_ok=True)
        lines = []
        for key, what, where in self.known_hits:
            lines.append(f'KNOWN-FINDING: property={self.prop} key={key} at {where}: {what}')
        printed = set()
        for v in self.violations:
            if v['key'] in printed:
                continue
            printed.add(v['key'])
            h = hashlib.sha1(v['key'].encode()).hexdigest()[:10]
            path = os.path.join(evdir, 'violations', f'{self.prop}-{h}.json')
            with open(path, 'w') as f:
                json.dump(dict(property=self.prop, **v), f, indent=1, default=str)
            lines.append(f"VIOLATION property={self.prop} replay={path}")
            lines.append(f"  rule={v['rule']} key={v['key']}")
            lines.append(f"  at {v['where']}")
            lines.append(f"  found:    {v['fact']}")
            if v.get('expected') is not None:
                lines.append(f"  expected: {v['expected']}")
            if v.get('direction'):
                lines.append(f"  direction: {v['direction']}")
            if v.get('why'):
                lines.append(f"  why: {v['why']}")
        nontrivial_keys = {i['key'] for i in self.instances if i.get('nontrivial')}
        held = [i for i in self.instances if i['verdict'] == 'holds']
        samples = []
        seen_rules = set()
        for i in self.instances:
            if i['rule'] not in seen_rules or len(samples) < 12:
                if len(samples) < 40:
                    samples.append({k: (v if isinstance(v, (int, bool, type(None))) else str(v))
                                    for k, v in i.items() if k in ('rule', 'key', 'where', 'fact', 'expected', 'verdict')})
                seen_rules.add(i['rule'])
        rule_counts = {}
        for i in self.instances:
            rc = rule_counts.setdefault(i['rule'], dict(holds=0, violated=0, known_finding=0))
            rc[{'holds': 'holds', 'violated': 'violated', 'known-finding': 'known_finding'}[i['verdict']]] += 1
        ev = dict(
            property_id=self.prop,
            tier=self.tier,
            seed=self.seed,
            level=level,
            coverage=dict(
                explanation=explanation,
                evaluations=len(self.instances),
                distinct_nontrivial=len(nontrivial_keys),
                rule='one evaluation = one rule instance (a rule applied to one construct of the type-checked '
                     'program); distinct = distinct instance keys (rule + def-path + fact, no line numbers); '
                     'non-trivial = the instance inspected at least one call site / expression of /repo',
                obligations=len(self.instances),
                discharged=len(held) + len([i for i in self.instances if i['verdict'] == 'known-finding']),
                samples=samples,
                functions_analysed=sorted(self.functions),
                rules=self.rules,
                rule_instance_counts=rule_counts,
                floors=self.floors,
                fixtures_fired=self.fixtures,
                undecided=self.undecided[:40],
                known_findings_matched=[k for k, _, _ in self.known_hits],
                exhaustive=False,
                **self.extra,
            ),
            assumptions=self.assumptions,
            wall_s=round(time.time() - self.t0, 3),
            violations=len(self.violations),
        )
        with open(os.path.join(evdir, f'{self.prop}.json'), 'w') as f:
            json.dump(ev, f, indent=1, default=str)
        for key in self.known:
            if key not in [k for k, _, _ in self.known_hits]:
                lines.append(f'NOTE: known finding of {self.prop} not reported by this run (repaired upstream, or the rule no longer sees it): {key}')
        for l in lines:
            print(l)
        if self.infra_errors:
            for e in self.infra_errors:
                print(f'INFRASTRUCTURE-ERROR property={self.prop}: {e}')
            return 2
        print(f'{self.prop}: {len(self.instances)} rule instances, {len(self.violations)} violation(s), '
              f'{len(self.known_hits)} known finding(s), {ev["wall_s"]}s')
        return 1 if self.violations else 0
