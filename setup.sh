#!/bin/bash
# Build the facts driver and prime the cargo target directories (offline).
set -e
cd "$(dirname "$0")"
export CARGO_NET_OFFLINE=true
(cd rta-facts && cargo build --offline --quiet)
python3 - <<'PY'
import sys
sys.path.insert(0, '.')
from sa import extract
import os
for cfg in ('dbg', 'rel'):
    p, dt = extract.extract_repo('/repo', cfg)
    os.remove(p)
    print('primed', cfg, round(dt, 1), 's')
if os.path.isdir('fixtures'):
    for cfg in ('dbg', 'rel'):
        p, dt = extract.extract_fixtures(cfg)
        os.remove(p)
        print('primed fixtures', cfg, round(dt, 1), 's')
from sa import witness
ok, res, tail = witness.run_witnesses('/repo')
print('primed witness crate:', 'ok' if ok else 'FAILED', len(res), 'doc-tests')
PY
