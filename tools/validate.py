#!/usr/bin/env python3
"""Validate MANIFEST.json and evidence files against the schemas (uses the tooling venv's jsonschema)."""
import json, sys, glob
import jsonschema
man = json.load(open('/verif/MANIFEST.json'))
jsonschema.validate(man, json.load(open('/root/.vp/MANIFEST.schema.json')))
es = json.load(open('/root/.vp/EVIDENCE.schema.json'))
for c in man['checks']:
    ev = json.load(open(c['evidence_file']))
    jsonschema.validate(ev, es)
    assert ev['property_id'] == c['property_id']
print('manifest + %d evidence files valid' % len(man['checks']))
