#!/usr/bin/env python3
"""debug aid: print the canonical term and the recorded events of bodies matching a substring"""
import sys, os, glob
sys.path.insert(0, '/verif')
from sa.facts import Crate, loc
from sa.evalr import Evaluator
from sa import term as T, extract
cfg = os.environ.get('CFG', 'dbg')
path, _ = extract.extract_repo(os.environ.get('RTA_REPO', '/repo'), cfg)
c = Crate(path); os.remove(path)
for name in sys.argv[1:]:
    for b in c.body_list:
        if name in b.path:
            ev = Evaluator(c, inline_private_loops=bool(os.environ.get("TRANSPARENT")))
            t = ev.eval_entry(b)
            print('==', b.path, loc(b.raw))
            print('   term:', T.show(t)[:3000])
            for e in ev.events:
                n = e['node']
                extra = {k: (T.show(v) if isinstance(v, tuple) else v) for k, v in e.items() if k in ('a', 'b', 'value', 'idx', 'base', 'arg', 'name', 'fields', 'src', 'callee', 'iter')}
                print(f"   {e['kind']:7s} {loc(n)} d={e['depth']} loops={e['loops']} pc=[{'; '.join(T.show(x) for x in e['pc'])}] {extra}" + (f" via={e['via']}" if e['via'] else ''))
            if ev.unknown: print('   UNKNOWN', ev.unknown)
