#!/bin/bash
# tools/refactor_batch.sh <out-dir> : run all checks against each R<k>/patch.diff (behaviour-preserving refactorings): expect silence
for r in "$1"/R*/; do
  name=$(basename $r)
  d=$(mktemp -d /tmp/rta-rf.XXXXXX)
  rsync -a --exclude target --exclude .git /repo/ "$d/"
  if ! (cd "$d" && patch -p1 -s -f -i "$r/patch.diff" >/dev/null 2>&1); then echo "== $name: patch does not apply"; rm -rf "$d"; continue; fi
  out=$(cd /verif && python3 - "$d" <<'PY'
import sys, os
sys.path.insert(0, '/verif')
from sa import mutate, props
res = mutate.run_props(sys.argv[1], sorted(props.PROPS))
for p, (code, keys) in sorted(res.items()):
    if code:
        print(p, code, '; '.join(k[:120] for k in keys[:5]))
PY
)
  echo "== $name: $(echo "$out" | wc -l | tr -d ' ') line(s)"; echo "$out" | sed 's/^/   /' | cut -c1-400
  rm -rf "$d"
done
