#!/usr/bin/env python3
"""Re-run every check against every filed seeded change and record exactly which rule instances report it (meta.json: caught_by)."""
import sys, os, json
sys.path.insert(0, '/verif')
from sa import mutate, props
from concurrent.futures import ProcessPoolExecutor

def work(m):
    mm = dict(m); mm['kind'] = 'equivalent'   # run *all* properties
    r = mutate.evaluate(mm, '/repo', sorted(props.PROPS))
    return m['id'], r

def main():
    seeds = mutate.seeded()
    with ProcessPoolExecutor(max_workers=10) as ex:
        res = dict(ex.map(work, seeds))
    table = []
    for sid, r in sorted(res.items()):
        d = os.path.join('/verif/seeded', sid.replace('seed-', ''))
        meta = json.load(open(os.path.join(d, 'meta.json')))
        caught = []
        for p, keys in sorted(r.get('fired', {}).items()):
            for k in keys:
                caught.append(f'{p}:{k}')
        meta['caught_by'] = caught
        meta['checked_with'] = 'tools/refresh_seed_meta.py (all 18 checks run against the patched scratch copy)'
        json.dump(meta, open(os.path.join(d, 'meta.json'), 'w'), indent=1)
        table.append((sid.replace('seed-', ''), meta['breaks_property'], sorted(r.get('fired', {})), [k.split(':')[0] for ks in r.get('fired', {}).values() for k in ks]))
        print(sid, sorted(r.get('fired', {})), 'INFRA' if r.get('infra') else '')
    json.dump(table, open('/verif/.cache/seed-table.json', 'w'))

main()
