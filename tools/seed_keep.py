#!/usr/bin/env python3
"""tools/seed_keep.py <src dir> <seed id> <property> <needs> <caught-by or ''> : file a confirmed seeded change under /verif/seeded/<id>/"""
import json, os, shutil, sys, glob
src, sid, prop, needs, caught = sys.argv[1:6]
dst = os.path.join('/verif/seeded', sid)
os.makedirs(dst, exist_ok=True)
shutil.copy(os.path.join(src, 'patch.diff'), os.path.join(dst, 'patch.diff'))
demos = glob.glob(os.path.join(src, 'demo_*.rs'))
for d in demos:
    shutil.copy(d, dst)
if os.path.exists(os.path.join(src, 'notes.md')):
    shutil.copy(os.path.join(src, 'notes.md'), os.path.join(dst, 'notes.md'))
meta = dict(
    id=sid, breaks_property=prop, needs_to_manifest=needs,
    demonstration=[os.path.basename(d) for d in demos],
    confirmed=dict(
        how='tools/seed_verify.sh in a scratch git worktree of /repo (removed afterwards)',
        suite_with_patch='80 unit + 3 doc tests pass',
        demo_with_patch='fails', demo_without_patch='passes'),
    caught_by=[c for c in caught.split(',') if c],
    origin='written by an independent sub-agent that saw only the property text and a scratch worktree',
)
json.dump(meta, open(os.path.join(dst, 'meta.json'), 'w'), indent=1)
print('kept', dst)
