#!/usr/bin/env python3
"""tools/equivalence_sweep.py [--files substr ..] : systematic BEHAVIOUR-PRESERVING single edits of the library sources
(flipped comparisons, swapped operands of commutative operations on simple operands, equivalent spellings of the
constants), each run against ALL checks on a scratch copy.  Every report is a false alarm of the machinery.

The counterpart of tools/mutation_sweep.py: that one measures sensitivity, this one specificity.  Results go to
.cache/equivalence-sweep.json; nothing here is part of a registered check."""
import sys, os, re, json, shutil, argparse, hashlib
HERE = os.path.dirname(os.path.dirname(os.path.abspath(__file__)))
sys.path.insert(0, HERE)
from concurrent.futures import ProcessPoolExecutor
from sa import mutate, props, sweep

REPO = '/repo'
ATOM = r'[A-Za-z_][A-Za-z0-9_]*(?:\.[A-Za-z_0-9]+)*(?:\(\))?'

OPS = [
    # comparison written from the other side
    ('flip', rf'(?<![\w.)])(?<![-+*/%] )({ATOM}) < ({ATOM})(?![\w.(]| [-+*/%])', r'\2 > \1'),
    ('flip', rf'(?<![\w.)])(?<![-+*/%] )({ATOM}) <= ({ATOM})(?![\w.(]| [-+*/%])', r'\2 >= \1'),
    ('flip', rf'(?<![\w.)])(?<![-+*/%] )({ATOM}) > ({ATOM})(?![\w.(]| [-+*/%])', r'\2 < \1'),
    ('flip', rf'(?<![\w.)])(?<![-+*/%] )({ATOM}) >= ({ATOM})(?![\w.(]| [-+*/%])', r'\2 <= \1'),
    ('flip', rf'(?<![\w.)])(?<![-+*/%] )({ATOM}) == ({ATOM})(?![\w.(]| [-+*/%])', r'\2 == \1'),
    # equivalent spellings of the unit / zero constants
    ('const', r'\bDuration::from\(1\)', 'Duration::epsilon()'), ('const', r'\bDuration::epsilon\(\)', 'Duration::from(1)'),
    ('const', r'\bDuration::zero\(\)', 'Duration::from(0)'), ('const', r'\bDuration::from\(0\)', 'Duration::zero()'),
    ('const', r'\bService::none\(\)', 'Service::from(0)'), ('const', r'\bService::epsilon\(\)', 'Service::from(1)'),
    ('const', r'\bOffset::from\(0\)', 'Offset::from_time_zero(Duration::zero())'),
    # commutative operations on simple operands, only as a complete right-hand side / argument
    ('swap', rf'= ({ATOM}) \+ ({ATOM});', r'= \2 + \1;'),
    ('swap', rf'\(({ATOM}) \+ ({ATOM})\)', r'(\2 + \1)'),
    ('swap', rf'(?<![\w.])({ATOM})\.min\(({ATOM})\)', r'\2.min(\1)'),
    ('swap', rf'(?<![\w.])({ATOM})\.max\(({ATOM})\)', r'\2.max(\1)'),
    ('swap', rf'\bstd::cmp::min\(({ATOM}), ({ATOM})\)', r'std::cmp::min(\2, \1)'),
    # boolean structure
    ('bool', rf'\bif ({ATOM})\.is_zero\(\) \{{', r'if !\1.is_non_zero() {'),
    ('bool', rf'\bif ({ATOM})\.is_non_zero\(\) \{{', r'if !\1.is_zero() {'),
    ('bool', rf'\b({ATOM})\.is_none\(\)', r'!\1.is_some()'),
    ('sat', rf'\b({ATOM})\.saturating_sub\(EPSILON\)', r'\1.saturating_sub(Duration::epsilon())'),
]


def enumerate_edits(files):
    out = []
    for rel in files:
        text = open(os.path.join(REPO, rel)).read()
        spans = list(sweep.code_spans(text))
        for name, rx, rp in OPS:
            for m in re.finditer(rx, text):
                if not any(a <= m.start() and m.end() <= b for a, b in spans):
                    continue
                line = text.count('\n', 0, m.start()) + 1
                ltxt = text.split('\n')[line - 1]
                if ltxt.lstrip().startswith(('#[', 'use ', 'pub use', 'mod ')) or ('fn ' in ltxt and '->' in ltxt):
                    continue
                new = text[:m.start()] + m.expand(rp) + text[m.end():]
                mid = hashlib.sha1(f'{rel}:{m.start()}:{rp}'.encode()).hexdigest()[:8]
                out.append(dict(id=mid, file=rel, line=line, op=name, old=m.group(0), new=m.expand(rp), text=ltxt.strip()[:140], content=new))
    return out


def work(m):
    d = mutate.make_copy(REPO)
    try:
        open(os.path.join(d, m['file']), 'w').write(m['content'])
        res = mutate.run_props(d, sorted(props.PROPS))
        fired = {p: keys[:3] for p, (code, keys) in res.items() if code == 1}
        infra = sorted(p for p, (code, _) in res.items() if code == 2)
        if not fired and len(infra) >= len(props.PROPS) - 1:
            return dict(m, content=None, status='no-compile')
        return dict(m, content=None, status='FALSE-ALARM' if fired else 'silent', fired=fired)
    finally:
        shutil.rmtree(d, ignore_errors=True)


def main():
    ap = argparse.ArgumentParser()
    ap.add_argument('--files', nargs='*', default=[])
    ap.add_argument('--jobs', type=int, default=12)
    ap.add_argument('--out', default=os.path.join(HERE, '.cache', 'equivalence-sweep.json'))
    a = ap.parse_args()
    edits = enumerate_edits(sweep.source_files(REPO, a.files))
    print(len(edits), 'edits', flush=True)
    with ProcessPoolExecutor(max_workers=a.jobs) as ex:
        res = list(ex.map(work, edits, chunksize=1))
    from collections import Counter
    print(Counter(r['status'] for r in res))
    for r in res:
        if r['status'] == 'FALSE-ALARM':
            print(f"FALSE-ALARM {r['file']}:{r['line']} [{r['op']}] {r['old']!r} -> {r['new']!r} :: {sorted(r['fired'])} {list(r['fired'].values())[0][:2]}")
    json.dump(res, open(a.out, 'w'), indent=1)


main()
