#!/usr/bin/env python3
"""tools/try_mutants.py <prop> : ad-hoc single edits (file, old, new) read from stdin as python list literal; prints the rule keys that fire"""
import sys, os, shutil, ast
sys.path.insert(0, '/verif')
from sa import mutate
prop = sys.argv[1]
edits = ast.literal_eval(sys.stdin.read())
for f, old, new in edits:
    d = mutate.make_copy('/repo')
    try:
        p = os.path.join(d, f)
        s = open(p).read()
        if s.count(old) != 1:
            print('!! edit does not apply uniquely:', f, old[:50]); continue
        open(p, 'w').write(s.replace(old, new))
        res = mutate.run_props(d, [prop])
        code, keys = res[prop]
        print(f'{old[:50]!r} -> {new[:50]!r}: exit {code}')
        for k in keys:
            print('      ', k[:110])
    finally:
        shutil.rmtree(d, ignore_errors=True)
