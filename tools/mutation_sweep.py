#!/usr/bin/env python3
"""tools/mutation_sweep.py [--files glob-substring ..] [--limit N] [--out file] : systematic single-token mutants of the
library sources, each run against ALL checks on a scratch copy.

Purpose: find blind spots of the rules.  Every mutant that compiles is classified
  detected     some check reports a violation
  survived     no check reports anything  -> candidate gap; then the repository's own test suite is run on it
                 (killed-by-tests / survives-tests) and the mutant is listed for triage (equivalent edit or real gap).
The result is written to .cache/mutation-sweep.json; nothing here is part of a registered check."""
import sys, os, re, json, shutil, subprocess, argparse
HERE = os.path.dirname(os.path.dirname(os.path.abspath(__file__)))
sys.path.insert(0, HERE)
from concurrent.futures import ProcessPoolExecutor
from sa import mutate, props

REPO = '/repo'

from sa import sweep
REPO = '/repo'


def work(m):
    d = mutate.make_copy(REPO)
    try:
        open(os.path.join(d, m['file']), 'w').write(m['content'])
        ok, err = mutate.compiles(d)
        if not ok:
            return dict(m, content=None, status='no-compile')
        res = mutate.run_props(d, sorted(props.PROPS))
        fired = {p: keys[:4] for p, (code, keys) in res.items() if code == 1}
        infra = sorted(p for p, (code, _) in res.items() if code == 2)
        if not fired and len(infra) >= len(props.PROPS) - 1:
            return dict(m, content=None, status='no-compile')     # the driver's own cargo check rejected it
        return dict(m, content=None, status='detected' if fired else 'survived', fired=fired, infra=infra)
    except Exception as ex:
        return dict(m, content=None, status='error', reason=repr(ex)[:200])
    finally:
        shutil.rmtree(d, ignore_errors=True)


def run_tests(m):
    """does the repository's own suite kill the mutant?"""
    d = mutate.make_copy(REPO)
    try:
        text = open(os.path.join(REPO, m['file'])).read()
        new = text[:m['pos']] + m['new'] + text[m['pos'] + len(m['old']):]
        open(os.path.join(d, m['file']), 'w').write(new)
        env = dict(os.environ, CARGO_NET_OFFLINE='true', CARGO_TARGET_DIR=os.path.join(HERE, '.cache', 'target-muttest-' + str(os.getpid() % 4)))
        r = subprocess.run(['cargo', 'test', '--offline', '--quiet'], cwd=d, capture_output=True, text=True, env=env, timeout=900)
        return m['id'], ('survives-tests' if r.returncode == 0 else 'killed-by-tests')
    except subprocess.TimeoutExpired:
        return m['id'], 'tests-timeout'
    finally:
        shutil.rmtree(d, ignore_errors=True)


def main():
    ap = argparse.ArgumentParser()
    ap.add_argument('--files', nargs='*', default=[])
    ap.add_argument('--limit', type=int, default=0)
    ap.add_argument('--out', default=os.path.join(HERE, '.cache', 'mutation-sweep.json'))
    ap.add_argument('--jobs', type=int, default=12)
    ap.add_argument('--no-tests', action='store_true')
    ap.add_argument('--extended', action='store_true', help='the second operator family (statement-level / structural edits)')
    a = ap.parse_args()
    muts = sweep.enumerate_mutants(REPO, sweep.source_files(REPO, a.files), sweep.OPS2 if a.extended else None)
    if a.limit:
        muts = muts[:a.limit]
    print(len(muts), 'mutants', flush=True)
    with ProcessPoolExecutor(max_workers=a.jobs) as ex:
        res = list(ex.map(work, muts, chunksize=1))
    surv = [r for r in res if r['status'] == 'survived']
    if surv and not a.no_tests:
        with ProcessPoolExecutor(max_workers=4) as ex:
            verdict = dict(ex.map(run_tests, surv))
        for r in surv:
            r['tests'] = verdict.get(r['id'])
    from collections import Counter
    print(Counter(r['status'] for r in res))
    for r in surv:
        print(f"SURVIVED {r['file']}:{r['line']} [{r['op']}] {r['old']!r}->{r['new']!r} tests={r.get('tests')} :: {r['text']}")
    json.dump(res, open(a.out, 'w'), indent=1)


main()
