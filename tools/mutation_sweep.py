#!/usr/bin/env python3
"""tools/mutation_sweep.py [--files glob-substring ..] [--limit N] [--out file] : systematic single-token mutants of the
library sources, each run against ALL checks on a scratch copy.

Purpose: find blind spots of the rules.  Every mutant that compiles is classified
  detected     some check reports a violation
  survived     no check reports anything  -> candidate gap; then the repository's own test suite is run on it
                 (killed-by-tests / survives-tests) and the mutant is listed for triage (equivalent edit or real gap).
The result is written to .cache/mutation-sweep.json; nothing here is part of a registered check."""
import sys, os, re, json, shutil, subprocess, argparse, hashlib
sys.path.insert(0, '/verif')
from concurrent.futures import ProcessPoolExecutor
from sa import mutate, props

REPO = '/repo'

OPS = [
    # (name, regex, replacement(s))
    ('rel', r' <= ', [' < ']), ('rel', r' < ', [' <= ']), ('rel', r' >= ', [' > ']), ('rel', r' > ', [' >= ']),
    ('eq', r' == ', [' != ']), ('eq', r' != ', [' == ']),
    ('arith', r' \+ ', [' - ']), ('arith', r' - ', [' + ']),
    ('arith', r' \* ', [' + ']), ('arith', r' / ', [' * ']), ('arith', r' % ', [' / ']),
    ('const', r'\bfrom\(1\)', ['from(0)', 'from(2)']), ('const', r'\bfrom\(0\)', ['from(1)']),
    ('const', r'\bepsilon\(\)', ['zero()']), ('const', r'\bzero\(\)', ['epsilon()']), ('const', r'\bnone\(\)', ['from(1)']),
    ('const', r'\bEPSILON\b', ['Duration::zero()']),
    ('range', r'\(0\.\.\)', ['(1..)']), ('range', r'\(1\.\.\)', ['(0..)', '(2..)']), ('range', r'\.\.=', ['..']),
    ('minmax', r'\.min\(', ['.max(']), ('minmax', r'\.max\(', ['.min(']),
    ('minmax', r'\bmin\(', ['max(']), ('minmax', r'\bmax\(', ['min(']),
    ('sat', r'\.saturating_sub\(([^()]*(?:\([^()]*\))?[^()]*)\)', [r' - \1']),
    ('drop', r'\.rev\(\)', ['']), ('drop', r'\.dedup\(\)', ['']), ('drop', r'\.skip\(1\)', ['']),
    ('closed', r'\bclosed_since_time_zero\(\)', ['since_time_zero()']), ('closed', r'\bsince_time_zero\(\)', ['closed_since_time_zero()']),
    ('closed', r'\bclosed_from_time_zero\(', ['from_time_zero(']), ('closed', r'\bfrom_time_zero\(', ['closed_from_time_zero(']),
    ('bool', r'\bis_zero\(\)', ['is_non_zero()']), ('bool', r'\bis_non_zero\(\)', ['is_zero()']),
    ('bool', r' && ', [' || ']), ('bool', r' \|\| ', [' && ']),
    ('take', r'\.take_while\(', ['.skip_while(']), ('take', r'\.unwrap_or_else\(Service::none\)', ['.unwrap_or_else(|| Service::from(1))']),
]


def source_files(filters):
    out = []
    for root, _, files in os.walk(os.path.join(REPO, 'src')):
        for f in files:
            p = os.path.join(root, f)
            rel = os.path.relpath(p, REPO)
            if not f.endswith('.rs') or f == 'tests.rs' or '/tests/' in rel or f.startswith('test'):
                continue
            if filters and not any(x in rel for x in filters):
                continue
            out.append(rel)
    return sorted(out)


def code_spans(text):
    """yield (start, end) of code regions: not inside comments, doc comments, string literals, #[cfg(test)] modules"""
    cut = text.find('#[cfg(test)]')
    limit = len(text) if cut < 0 else cut
    i = 0
    start = 0
    while i < limit:
        if text.startswith('//', i):
            if start < i:
                yield (start, i)
            j = text.find('\n', i)
            i = limit if j < 0 else j + 1
            start = i
        elif text.startswith('/*', i):
            if start < i:
                yield (start, i)
            j = text.find('*/', i)
            i = limit if j < 0 else j + 2
            start = i
        elif text[i] == '"':
            if start < i:
                yield (start, i)
            j = i + 1
            while j < limit and text[j] != '"':
                j += 2 if text[j] == '\\' else 1
            i = j + 1
            start = i
        else:
            i += 1
    if start < limit:
        yield (start, limit)


def enumerate_mutants(files):
    muts = []
    for rel in files:
        text = open(os.path.join(REPO, rel)).read()
        spans = list(code_spans(text))
        for name, rx, repls in OPS:
            for m in re.finditer(rx, text):
                if not any(a <= m.start() and m.end() <= b for a, b in spans):
                    continue
                line = text.count('\n', 0, m.start()) + 1
                ltxt = text.split('\n')[line - 1]
                if ltxt.lstrip().startswith(('#[', 'use ', 'pub use', 'mod ', 'assert', 'debug_assert')) and name not in ('rel',):
                    continue
                if 'fn ' in ltxt and '->' in ltxt and name in ('rel', 'arith'):
                    continue    # signatures / generics
                for rp in repls:
                    new = text[:m.start()] + m.expand(rp) + text[m.end():]
                    mid = hashlib.sha1(f'{rel}:{m.start()}:{rp}'.encode()).hexdigest()[:8]
                    muts.append(dict(id=mid, file=rel, line=line, op=name, old=m.group(0), new=m.expand(rp), text=ltxt.strip()[:140], pos=m.start(), content=new))
    return muts


def work(m):
    d = mutate.make_copy(REPO)
    try:
        open(os.path.join(d, m['file']), 'w').write(m['content'])
        ok, err = mutate.compiles(d)
        if not ok:
            return dict(m, content=None, status='no-compile')
        res = mutate.run_props(d, sorted(props.PROPS))
        fired = {p: keys[:4] for p, (code, keys) in res.items() if code == 1}
        infra = sorted(p for p, (code, _) in res.items() if code == 2)
        if not fired and len(infra) >= len(props.PROPS) - 1:
            return dict(m, content=None, status='no-compile')     # the driver's own cargo check rejected it
        return dict(m, content=None, status='detected' if fired else 'survived', fired=fired, infra=infra)
    except Exception as ex:
        return dict(m, content=None, status='error', reason=repr(ex)[:200])
    finally:
        shutil.rmtree(d, ignore_errors=True)


def run_tests(m):
    """does the repository's own suite kill the mutant?"""
    d = mutate.make_copy(REPO)
    try:
        text = open(os.path.join(REPO, m['file'])).read()
        new = text[:m['pos']] + m['new'] + text[m['pos'] + len(m['old']):]
        open(os.path.join(d, m['file']), 'w').write(new)
        env = dict(os.environ, CARGO_NET_OFFLINE='true', CARGO_TARGET_DIR=os.path.join('/verif/.cache', 'target-muttest-' + str(os.getpid() % 4)))
        r = subprocess.run(['cargo', 'test', '--offline', '--quiet'], cwd=d, capture_output=True, text=True, env=env, timeout=900)
        return m['id'], ('survives-tests' if r.returncode == 0 else 'killed-by-tests')
    except subprocess.TimeoutExpired:
        return m['id'], 'tests-timeout'
    finally:
        shutil.rmtree(d, ignore_errors=True)


def main():
    ap = argparse.ArgumentParser()
    ap.add_argument('--files', nargs='*', default=[])
    ap.add_argument('--limit', type=int, default=0)
    ap.add_argument('--out', default='/verif/.cache/mutation-sweep.json')
    ap.add_argument('--jobs', type=int, default=12)
    ap.add_argument('--no-tests', action='store_true')
    a = ap.parse_args()
    muts = enumerate_mutants(source_files(a.files))
    if a.limit:
        muts = muts[:a.limit]
    print(len(muts), 'mutants', flush=True)
    with ProcessPoolExecutor(max_workers=a.jobs) as ex:
        res = list(ex.map(work, muts, chunksize=1))
    surv = [r for r in res if r['status'] == 'survived']
    if surv and not a.no_tests:
        with ProcessPoolExecutor(max_workers=4) as ex:
            verdict = dict(ex.map(run_tests, surv))
        for r in surv:
            r['tests'] = verdict.get(r['id'])
    from collections import Counter
    print(Counter(r['status'] for r in res))
    for r in surv:
        print(f"SURVIVED {r['file']}:{r['line']} [{r['op']}] {r['old']!r}->{r['new']!r} tests={r.get('tests')} :: {r['text']}")
    json.dump(res, open(a.out, 'w'), indent=1)


main()
