#!/usr/bin/env python3
"""One-off generator of spec/vetted_sites.json: lists every SITE instance of today's tree that is not discharged by
its path condition and attaches the hand-written invariant (by the pattern table below, reviewed by hand).  The
JSON it writes is the frozen table; the checks never run this script."""
import sys, os, json, re
sys.path.insert(0, '/verif')
from sa.facts import Crate
from sa import term as T, extract, sites

WF_SEG = 'well-formedness: WCET >= 1 and 1 <= last_np_segment <= WCET (documented task parameters)'
BW_INV = 'busy-window invariant: A < L and L is the least solution of BW(x) <= x, so the per-offset solution x* exceeds A (if x* <= A then BW(x*) <= x* contradicts leastness); x* >= 1'
SELF = 'rbf_t(A+1) >= cost of one job >= remaining cost, because A is a step offset of the task under analysis (precondition: the task under analysis releases at least one job)'
SUPPLY = 'constructor precondition budget <= deadline <= period (asserted in new(); fields are public, so a precondition of well-formed input)'
DIVPOS = 'divisor >= 1 by well-formedness: periods, budgets, horizons and minimum inter-arrival times are at least 1; the last delta-min entry is > 0 for a curve that can be extrapolated'
MONOCOST = 'cumulative cost functions are non-decreasing (C14 axiom; FromIterator enforces it, Curve::new documents it)'
NONEMPTY = 'type invariant: the delta-min vector is non-empty -- asserted at every construction (Curve::new, from_iter) or built from a non-empty literal'
HALF = 'assert!(n >= 2) dominates, and the closure parameter k ranges over 0..=n/2 <= n - 1'
PRECOND = 'precondition check: this assert *defines* well-formedness (constructor argument check / documented precondition); it does not fire on well-formed input'
DBGX = 'debug-only cross-check; holds on well-formed input by the cited invariant'

RULES = [
    (r'^panic:.*(::new|from_iter|ArrivalCurvePrefix::lookup|Curve::from_trace):assert#', PRECOND),
    (r'^panic:(arrival|wcet)::curve::Curve::extrapolate(_steps|_with_bound)?:assert#', PRECOND + ' (assert!(n >= 2) of extrapolate_next, dominated by can_extrapolate() at every call)'),
    (r'^panic:<arrival::arrival_curve_prefix::ArrivalCurvePrefix as arrival::ArrivalBound>::number_arrivals:assert#', PRECOND + ' (lookup: delta <= horizon holds because the argument is delta % horizon)'),
    (r'^panic:arrival::arrival_curve_prefix::<impl std::convert::From<&?arrival::arrival_curve_prefix::ArrivalCurvePrefix> for arrival::curve::Curve>::from:assert#', PRECOND),
    (r'^panic:<arrival::curve::(Curve|ExtrapolatingCurve) as arrival::ArrivalBound>::number_arrivals:panic#\d+$', 'unreachable (the panic!() that ends lookup_arrivals): callers pass tail < largest_known_distance (tail = delta % largest), so the search finds an entry at the last position at the latest'),
    (r'^panic:arrival::curve::Curve::lookup_arrivals:panic#\d+$', 'unreachable: callers pass tail < largest_known_distance (tail = delta % largest), so the scan returns at the last entry at the latest'),
    (r'^panic:.*:panic#\d+@lookup_arrivals$', 'unreachable: callers pass tail < largest_known_distance (tail = delta % largest), so the scan returns at the last entry at the latest'),
    (r'^panic:arrival::curve::Curve::from_trace:debug_assert#\d+@distance_to', DBGX + ': the trace is non-decreasing (asserted against the newest element at loop entry; older elements by induction)'),
    (r'^sub:arrival::curve::Curve::from_trace:.*@distance_to', 'trace non-decreasing: asserted against the newest element of the window at loop entry, older ones by induction'),
    (r'^panic:fixed_point::search_with_offset:debug_assert#\d+@distance_to', DBGX + ': service_time(w(r)) >= offset inside the busy window (search: offset 0; ecrts19: every rhs(A,.) >= bw(A+1) term-wise and st(bw(x)) > x below max_bw)'),
    (r'^sub:fixed_point::search_with_offset:.*@distance_to', 'service_time(workload(r)) >= offset inside the busy window (search: offset 0; ecrts19: every rhs(A,.) >= bw(A+1) term-wise and st(bw(x)) > x below max_bw, = max_bw at it)'),
    (r'^panic:fixed_point::search:debug_assert_eq#', DBGX + ': the iterative search returns the least fixed point for monotone workloads (C08)'),
    (r'^panic:ros2::ecrts19::rta_processing_chain:debug_assert_eq#', DBGX + ': documented parameter contract full_chain = chain_prefix + chain_last_callback'),
    (r'^panic:ros2::(bw|rr)::rta_subchain:debug_assert#', DBGX + ': documented precondition, subchain references point into the workload'),
    (r'^panic:ros2::bw::rta_subchain:assert_eq#', DBGX + ': Lemma 19 -- the production step enumeration agrees with the brute-force enumeration (compared structurally by C07/SPACE and the PROFILE rule)'),
    (r'^unwrap:ros2::(bw|rr)::rta_subchain:expect\(last\(p2\)\)', 'documented precondition: the subchain is not empty'),
    (r'^sub:.*dedicated_uniproc_rta:p0\.wcet\.wcet - 1$', WF_SEG),
    (r'^sub:.*dedicated_uniproc_rta:p0\.last_np_segment - 1$', WF_SEG),
    (r'^sub:.*dedicated_uniproc_rta:p0\.wcet\.wcet - p0\.last_np_segment - 1$', WF_SEG),
    (r'^sub:.*dedicated_uniproc_rta:p0\.wcet\.wcet - p0\.wcet\.wcet - p0\.last_np_segment \+ 1$', WF_SEG),
    (r'^sub:.*dedicated_uniproc_rta:service_needed\(RBF.*\$0 \+ 1\) - ', SELF),
    (r'^sub:fixed_priority::.*dedicated_uniproc_rta:try\(search\(Dedicated\{\}, p2, closure\)\) - \$0$', BW_INV),
    (r'^sub:fifo::rta::dedicated_uniproc_rta:service_needed\(p0, \$0 \+ 1\) - \$0$', 'total_rbf(x) > x for every 0 < x < L (L is the least fixed point), and A + 1 <= L'),
    (r'^sub:ros2::(bw|rr)::rta_subchain:cost_of_jobs\(.*\+ 1\) - cost_of_jobs\(', MONOCOST),
    (r'^sub:<wcet::curve::(Curve|ExtrapolatingCurve) as wcet::JobCostModel>::job_cost_iter', MONOCOST),
    (r'^sub:<wcet::curve::Curve as wcet::JobCostModel>::least_wcet', MONOCOST),
    (r'^sub:<supply::.*(p0\.period - p0\.budget|p0\.deadline - p0\.budget)$', SUPPLY),
    (r'^sub:<supply::constrained::Constrained as supply::SupplyBound>::provided_service:- p0\.budget \+ p0\.deadline', SUPPLY),
    (r'^sub:<supply::.*service_time:.*\(\(p1 / p0\.budget\) \* p0\.budget\)', 'guarded by full_budget < demand (the enclosing branch) together with budget <= period: slack + (demand - full_budget) is a sum of non-negative terms; the linear reasoner does not see through the product'),
    (r'^div:', DIVPOS),
    (r'^index:.*\.min_distance\[0\]$', NONEMPTY),
    (r'^unwrap:.*:unwrap\(last\(.*\.min_distance\)\)$', NONEMPTY),
    (r'^sub:arrival::curve::Curve::min_distance:len\(p0\.min_distance\) - 1', NONEMPTY),
    (r'^index:(arrival|wcet)::curve::Curve::extrapolate(_steps|_with_bound)?:(p0|loopvar)\.(min_distance|wcet_of_n_jobs)\[\$0\]$', HALF),
    (r'^sub:(arrival|wcet)::curve::Curve::extrapolate(_steps|_with_bound)?:(- \$0 \+ )?len\((p0|loopvar)\.(min_distance|wcet_of_n_jobs)\)( - \$0| - 1)$', HALF),
    (r'^(index|sub):arrival::arrival_curve_prefix::<impl std::convert::From<&?arrival::arrival_curve_prefix::ArrivalCurvePrefix> for arrival::curve::Curve>::from:', HALF + ' (extrapolate_with_bound on the freshly built curve)'),
    (r'^sub:arrival::curve::Curve::extrapolate_with_bound:p1\.0 - 1', 'the bound\'s interval length is >= 1: the only caller passes horizon + epsilon'),
    (r'^sub:<arrival::curve::Curve as arrival::ArrivalBound>::steps_iter:\$0\.1 - \$0\.0', 'the delta-min vector is non-decreasing (FromIterator enforces it; new() documents it), so consecutive differences are non-negative'),
    (r'^index:<<arrival::curve::Curve as arrival::ArrivalBound>::steps_iter::StepsIter', 'idx is kept in 0..step_sizes.len() by the modulo update; step_sizes is non-empty for a delta-min vector with a positive entry'),
    (r'^sub:<arrival::dmin::DeltaMinIterator.*case\((p0|loopvar)\.(next_step|#\d), Some, 0\) - 1', 'items of steps_iter are interval lengths >= 1 (C11); next_step holds such an item'),
    (r'^index:<arrival::arrival_curve_prefix::ArrivalCurvePrefix as arrival::ArrivalBound>::number_arrivals:p0\.steps\[', 'i is either an enumerate() index of steps (< len) or steps.len(); the enclosing branch gives i > 0'),
    (r'^index:.*@lookup$', 'i is either an enumerate() index of steps (< len) or steps.len(); the enclosing branch gives i > 0'),
    (r'^sub:time::Offset::closed_from_time_zero:p0 - 1$', 'API precondition delta >= 1 ("closed interval [0,X] of length delta"); the obligation is checked at every crate-internal call site instead (keys ending in @closed_from_time_zero)'),
    (r'^sub:time::Offset::distance_to:p1 - p0$', 'API precondition self <= t (debug_assert); the obligation is checked at every crate-internal call site instead (keys ending in @distance_to)'),
    (r'^panic:time::Offset::distance_to:', 'API precondition self <= t; checked at every crate-internal call site'),
]

def main():
    out = {}
    unmatched = []
    for cfg in ('dbg', 'rel'):
        path, _ = extract.extract_repo('/repo', cfg); c = Crate(path); os.remove(path)
        for b in c.body_list:
            if sites.skip_body(b) or sites.is_private_helper(c, b) or b.path in sites.context_helpers(c):
                continue
            ev, ss = sites.collect(c, b)
            for s in ss:
                if s['kind'] != 'panic' and sites.discharge(s):
                    continue
                key = s['key']
                reason = None
                for pat, r in RULES:
                    if re.search(pat, key):
                        reason = r
                        break
                if reason is None:
                    unmatched.append((key, s['where']))
                    continue
                e = out.setdefault(key, dict(key=key, invariant=reason, configs=[]))
                if cfg not in e['configs']:
                    e['configs'].append(cfg)
                if s['kind'] in ('panic', 'unwrap'):
                    e.setdefault('when', {})[cfg] = s.get('when')
                    if s.get('when_term') is not None:
                        # the condition as a term: lets a textually different condition be proved equal (sa/linarith.terms_equal)
                        e.setdefault('when_term', {})[cfg] = repr(s['when_term'])
    for k, w in unmatched:
        print('UNMATCHED', w, k[:220])
    json.dump(sorted(out.values(), key=lambda e: e['key']), open('/verif/spec/vetted_sites.json', 'w'), indent=1)
    print(len(out), 'vetted entries;', len(unmatched), 'unmatched')

main()
