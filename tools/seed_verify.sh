#!/bin/bash
# tools/seed_verify.sh <dir containing patch.diff and demo_*.rs> <name> <prop> [<prop>...]
# 1. confirm in a scratch worktree: suite green with the patch; demo fails with the patch, passes without
# 2. run the given checks against the patched tree
# The worktree and its build output are removed at the end.
src="$1"; name="$2"; shift 2
wt=/tmp/seedv/$name
rm -rf "$wt"; mkdir -p /tmp/seedv
git -C /repo worktree add -q --detach "$wt" HEAD || exit 9
cp /repo/Cargo.lock "$wt/" 2>/dev/null
export CARGO_NET_OFFLINE=true CARGO_TARGET_DIR=/tmp/seedv/target-$name
demo=$(ls "$src"/demo_*.rs | head -1)
res=""
( cd "$wt" && git apply "$src/patch.diff" ) || { echo "PATCH-DOES-NOT-APPLY"; git -C /repo worktree remove --force "$wt"; exit 8; }
suite=$(cd "$wt" && cargo test --offline 2>&1 | grep -E "^test result" | tr '\n' ' ')
echo "suite with patch: $suite"
mkdir -p "$wt/tests"; cp "$demo" "$wt/tests/"
dn=$(basename "$demo" .rs)
with=$(cd "$wt" && timeout 600 cargo test --offline --test "$dn" 2>&1 | grep -E "^test result|panicked|error(\[|:)" | head -3 | tr '\n' ' ')
echo "demo with patch: $with"
# run the checks on the patched tree (without the demo file)
rm -rf "$wt/tests"
for p in "$@"; do
  (cd /verif && python3 -m sa.main "$p" --repo "$wt" 2>&1 | grep -E "VIOLATION|rule=|INFRA|rule instances" | head -8)
done
( cd "$wt" && git checkout -q -- . )
mkdir -p "$wt/tests"; cp "$demo" "$wt/tests/"
without=$(cd "$wt" && timeout 600 cargo test --offline --test "$dn" 2>&1 | grep -E "^test result|panicked|error(\[|:)" | head -3 | tr '\n' ' ')
echo "demo without patch: $without"
git -C /repo worktree remove --force "$wt"
rm -rf /tmp/seedv/target-$name
