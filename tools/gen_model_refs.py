#!/usr/bin/env python3
"""One-off generator of spec/model_summaries.json: the canonical summary (sa/summary.py) of every model function of
arrival/, wcet/, demand/ on the tree it was run on, to be reviewed by hand against the definitions and then frozen.
The checks never run this script; they compare the summaries re-derived from /repo's current tree with the frozen ones."""
import sys, os, json, re
sys.path.insert(0, '/verif')
from sa.facts import Crate
from sa import rules_models, extract, summary, sites, rules_sem

def props_for(path):
    p = set()
    name = path.split('::')[-1]
    if 'wcet::' in path.split(' ')[0] or path.startswith('wcet::') or '<wcet::' in path or 'wcet::JobCostModel' in path:
        p.add('C14')
    if path.startswith('time::') or path.startswith('<time::'):
        p.add('C20')
    if path.startswith('supply::') or '<supply::' in path:
        p.add('C09')
    if path.startswith('demand::') or '<demand::' in path or 'demand::RequestBound' in path or 'demand::AggregateRequestBound' in path:
        p.add('C16')
        if name in ('steps_iter', 'step_offsets'):
            p.add('C11')
    if path.startswith('arrival::') or '<arrival::' in path or '<<arrival::' in path:
        if name in ('number_arrivals', 'clone_with_jitter', 'divide_with_ceil', 'with_jitter', 'new_zero_jitter', 'sum_of', 'lookup', 'lookup_arrivals', 'max_njobs_in_horizon') or (name in ('new', 'from') and ('sporadic' in path or 'periodic' in path or 'propagated' in path)):
            p.add('C10')
        if name in ('steps_iter', 'brute_force_steps_iter') or 'StepsIter' in path:
            p.add('C11')
        if 'dmin::' in path or name in ('from_trace', 'from_arrival_bound', 'from_arrival_bound_until', 'from_iter', 'lookup', 'max_njobs_in_horizon', 'lookup_arrivals') or \
           (name in ('from', 'new') and ('curve' in path or 'arrival_curve_prefix' in path)) or \
           (name == 'number_arrivals' and ('curve::Curve ' in path or 'ArrivalCurvePrefix' in path)):
            p.add('C12')
        if 'curve::' in path and 'arrival_curve_prefix' not in path and (name.startswith('extrapolate') or name in ('can_extrapolate', 'min_distance', 'largest_known_distance',
                'jobs_in_largest_known_distance', 'min_job_separation', 'lookup_arrivals', 'advance') or 'ExtrapolatingCurve' in path or
                (name == 'number_arrivals' and 'curve::Curve ' in path)):
            p.add('C13')
        if 'poisson' in path:
            p = {'C15'}  # only the narrow clause "computes the documented formula as written" (floating point is not decided)
    return sorted(p)

def main():
    path, _ = extract.extract_repo('/repo', 'dbg'); c = Crate(path); os.remove(path)
    out = []
    for b in c.body_list:
        time_arith = (b.path.startswith('<time::') or b.path.startswith('time::')) and b.mac and \
            any(m in ('Add', 'Sub', 'AddAssign', 'Sum') for m in b.mac)
        if (sites.skip_body(b) and not time_arith) or b.kind not in ('Fn', 'AssocFn'):
            continue
        ps = props_for(b.path)
        if not ps:
            continue
        if b.path == '<arrival::arrival_curve_prefix::ArrivalCurvePrefix as arrival::ArrivalBound>::steps_iter':
            continue    # known finding (yields 0 first): reported by STEP-NONZERO, never pinned as a reference
        s, ev_ = summary.summarise(c, b)
        entry = dict(path=b.path, props=ps, summary=s.split('\n'))
        st = getattr(ev_, 'struct', None)
        if st is not None and rules_models.struct_ok(st):
            entry['struct'] = repr(st)   # cases and effects as terms (loop-free functions): semantic fall-back of REF
        if str(b.raw.get('vis', '')).startswith('Restricted') and not b.raw.get('impl_trait') and not (b.raw.get('trait') and not b.raw.get('impl')):
            entry['private'] = True     # a private helper: if it disappears, its callers' summaries cover the behaviour
        cs = rules_sem.pure_lin_cases(c, b.path, allow_calls=True)
        if cs is not None:
            entry['cases'] = repr(cs)      # guarded linear cases: lets a textually different summary be proved equal
        out.append(entry)
    json.dump(out, open('/verif/spec/model_summaries.json', 'w'), indent=1)
    from collections import Counter
    print(len(out), Counter(p for e in out for p in e['props']), sum(1 for e in out if 'cases' in e), 'with linear cases')

main()
