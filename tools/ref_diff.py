#!/usr/bin/env python3
"""tools/ref_diff.py <patch.diff> : apply a patch to a scratch copy and print, for every model function whose summary differs from the reference, both summaries"""
import sys, os, json, shutil, subprocess
sys.path.insert(0, '/verif')
from sa import mutate, extract, summary
from sa.facts import Crate
d = mutate.make_copy('/repo')
try:
    r = subprocess.run(['patch', '-p1', '-s', '-f', '-i', os.path.abspath(sys.argv[1])], cwd=d, capture_output=True, text=True)
    path, _ = extract.extract_repo(d, 'dbg'); c = Crate(path); os.remove(path)
    refs = {e['path']: e['summary'] for e in json.load(open('/verif/spec/model_summaries.json'))}
    for p, ref in refs.items():
        b = c.body(p)
        if b is None:
            print('### MISSING', p); continue
        got, _ = summary.summarise(c, b)
        if got.split('\n') != ref:
            print('###', p)
            print('  REF:'); [print('     ', l[:400]) for l in ref]
            print('  NOW:'); [print('     ', l[:400]) for l in got.split('\n')]
finally:
    shutil.rmtree(d, ignore_errors=True)
