#!/usr/bin/env python3
"""Generate /verif/MANIFEST.json from one table (keeps the manifest in sync with sa/props.py)."""
import json
import os
import sys

VERIF = os.path.dirname(os.path.dirname(os.path.abspath(__file__)))
sys.path.insert(0, VERIF)

TRUSTED = ('Trusted base: rustc front end (resolution, type check, HIR), the rta-facts serialiser, the rule '
           'engine in sa/, and the tables in sa/ (equation tables, monotonicity axioms, vetted sites). Linear '
           'forms ignore u64 wrap-around. The check decides the named structural clauses for all inputs; it '
           'does not decide the behavioural property as a whole. Every check also runs the clause sets of the properties '
           'its property rests on (the model code an analysis calls; DEPS in sa/props.py, DESIGN.md section 18) and '
           'reports a failing imported clause under its own rule and key.')

CLAIMS = {
    'C01': dict(
        technique='abstract interpretation of typed HIR to linear forms + directional comparison with equation table',
        text='Decides, for all inputs, named structural clauses necessary for C01: for each of the four FP entry '
             'points the busy-window equation, the per-offset equation (own demand on [0,A], blocking, '
             'interference at the fixed-point variable, run-to-completion correction), the result extraction, '
             'the search space (steps-1, A<L, no truncating stage), supply/limit plumbing and `?` on every '
             'search are recovered by flow from the type-checked program and compared with aRTA Thm 31; any '
             'deviation in the unsafe direction (or an unrecoverable structure) is a violation. That the '
             'equations bound real schedules is the cited theorem and is not decided.',
        ref='7/C01'),
    'C02': dict(
        technique='abstract interpretation of typed HIR to linear forms + directional comparison with equation table',
        text='Same clauses as C01 for the four EDF entry points, plus: deadline-shifted interference window '
             'min{x, (A+1+D_t) -. D_o}, offset-dependent blocking (filter D_o > D_t + A and releases at all, '
             'value seg -. 1, max, default 0), all three search-space components with the inverse deadline '
             'shift, merged order-preserving. Unsafe-direction deviations are violations.',
        ref='7/C02'),
    'C03': dict(
        technique='abstract interpretation of typed HIR to linear forms + directional comparison with equation table',
        text='FIFO: L = lfp total_rbf, R(A) = total_rbf(A+1) - A, search space steps-1 below L, maximum with '
             'default 0, `?` on L; unsafe-direction deviations are violations.',
        ref='7/C03'),
    'C06': dict(
        technique='abstract interpretation to linear forms; exact comparison with equation table; use/step-space (DOM) consistency',
        text='Exactness clauses over all nine analyses: every recovered equation, shift, bound and result form '
             'equals the table (both directions); DOM: every dependence of the per-offset equation on the '
             'offset A is f(A+u) for a search-space component steps(f)-u, or a declared monotone exemption '
             '(EDF blocking filter, the final -A) -- the structural reason why pruning to steps is lossless; '
             'errors arise only from search and propagate by `?`; limit is passed unmodified.',
        ref='7/C06'),
    'C18': dict(
        technique='abstract interpretation to linear forms; directional comparison (pessimistic direction)',
        text='For FP-P, FP-NP and FIFO no recovered term, shift, bound or result form exceeds the equation '
             'table (A+2, an extra +eps, A<=L, a missing -A, rem != C-eps are violations). Existence of the '
             'witness schedule is not decided.',
        ref='7/C18'),
    'C04': dict(
        technique='abstract interpretation of typed HIR to canonical terms + directional comparison with the paper\'s right-hand sides',
        text='For the four ECRTS\'19 entry points (through the shared helper, inlined): busy-window rhs (Lemma 6), per-offset rhs '
             '(Lemmas 1, 3, 4/5, 8) with own demand at A+1 and interference window A+1+(r -. least_wcet(A+r)), offset '
             'coupling between search_with_offset and the rhs, supply/limit plumbing, `?`, search space = steps of the '
             'demand under analysis - 1 while A <= max busy window, max_response_time. Unsafe-direction deviations are '
             'violations. Not decided: executor behaviour, the supply-bound inverse (C09).',
        ref='7/C04'),
    'C05': dict(
        technique='abstract interpretation of typed HIR to canonical terms + directional comparison with the paper\'s definitions',
        text='rr and bw subchain analyses (RTSS\'21): direct / busy-window interference with the polling-point caps per '
             'callback kind (Defs 1, 5), self-interference (Def 2), polling-point bound (Def 3), own-workload bound (Lemma 18), '
             'S* rhs, R* = service_time(sbf(S*) -. 1 + marginal cost), -t_a only for singleton subchains, priority direction '
             '(interfering, interfered-with; a < b), end-of-chain counted exactly once, bw search space (Lemma 19) and its '
             'bound, is_pp/kind-table agreement; in the debug and the release configuration. Unsafe-direction deviations '
             'are violations.',
        ref='7/C05'),
    'C07': dict(
        technique='abstract interpretation to canonical terms; exact comparison with the papers\' definitions',
        text='Exactness clauses over ecrts19.rs, rr.rs, bw.rs: every recovered right-hand side, result expression, '
             'search-space source/shift/bound equals the table (inclusive A <= max_bw in ecrts19, strict t_a < max_offset '
             'in bw, eoc counted exactly once); Err only from search, propagated by `?`; limit unmodified.',
        ref='7/C07'),
    'C08': dict(
        technique='one-symbolic-iteration loop summaries with path conditions (dataflow over typed HIR), both build configurations',
        text='Ten dataflow clauses over fixed_point.rs and the default SupplyBound::service_time, each necessary for C08: '
             'start value 1; inclusive loop guard; Ok only under bound <= assumed with payload service_time(w(assumed)) - '
             'offset; sole update := bound on the complementary branch; divergence_limit never reaches an Ok payload '
             '(non-interference); Err payload and who-may-construct; search == search_with_offset at offset 0 in dbg and '
             'rel; max_response_time as a selection table over (left Ok?, right Ok?) of the pairwise combinator (max_by comparator '
             'or reduce function alike) / default / no adaptor; agreement with the debug linear scan incl. the arguments of the '
             'cross-check; default service_time start/return/step. The clauses follow a loop that was extracted into a private '
             'helper, and `while` / `loop`+`break v` / early `return` are one exit set. The supply laws of C09 are imported '
             '(service_time(0) = 0 etc.). Leastness for numeric workloads is not decided.',
        ref='7/C08'),
    'C19': dict(
        technique='sibling comparison: term identity under substitution; signature/use analysis for supply-parametricity; linear entailment for the supply reductions',
        text='Each reduction named by C19 for FP and EDF (LP last:=1,B:=0 = P; LP last:=C = NP; LP last:=1 = FNP; EDF with all '
             'segments 1 resp. = WCET) is decided as an identity of the recovered canonical terms (BW, OFF, result, search '
             'space) under substitution. Every ROS 2 entry point takes its supply as a type parameter bounded by SupplyBound '
             'only and uses it only through provided_service/service_time/search* (PARAM); Periodic[budget := period] and '
             'Constrained[budget := deadline := period] are PROVED to be the same two functions as Dedicated (SUP-SIB, linear '
             'entailment over guarded cases), so every ROS 2 analysis returns the same result for the three supplies. The remaining '
             'numeric agreements (NP-EDF max = FIFO, event source = FIFO) are not decided.',
        ref='7/C19 and 21'),
    'C20': dict(
        technique='site enumeration with path-condition discharge (linear implication over typed HIR), loop/iterator termination patterns, cross-profile term comparison',
        text='SITE: every raw subtraction, index, unwrap/expect, division and reachable panic/assert of /repo, enumerated in a '
             'debug (assertions + overflow checks) and a release configuration, is implied safe by its path condition '
             '(branches, early returns, && operands, upstream filter/take_while stages, loop ranges, closure-parameter '
             'lower bounds; private helpers are analysed in each calling context) or carries a vetted invariant '
             '(spec/vetted_sites.json); anything else -- e.g. saturating_sub turned into `-`, a removed guard -- is a '
             'violation. TERM: loops match a strict-progress pattern or a vetted argument; no draining consumer on an '
             'unbounded iterator; no next/peek over filter(infinite). PROFILE: every function and closure computes the same '
             'canonical term in both configurations modulo one vetted identity wrapper. SITE-COND: the condition of every '
             'vetted assert is compared with the vetted entry (a weakened or strengthened assert is reported). FWD: every auto_impl '
             'wrapper of a model trait forwards every method. FP-SIB / BW-SIB: the debug-only cross-checks compare the production '
             'result with the same computation on the same arguments. Site discharge also uses linear entailment with '
             'quotient/remainder facts and the documented monotone tables; a site relocated into / out of a private helper, or an '
             '.expect() that fails exactly when a vetted panic!() did, keeps its vetted invariant. TINV: the one type invariant the '
             'discharge uses (the delta-min vector of arrival::Curve is never empty) is decided, not assumed: every construction '
             'provides a non-empty literal or an unconditional assert, and afterwards the vector is only extended. '
             'Positive/negative controls on a fixtures crate run every time. Not decided: that the vetted invariants hold; floating point.',
        ref='7/C20'),
    'C09': dict(
        technique='linear entailment over guarded cases (polyhedral reasoning with quotient/remainder facts) for the algebraic laws; canonical function summaries vs reviewed references; one-iteration loop summary of the generic inverse',
        text='(1) The closed-form SBFs and inverses of Periodic, Constrained and Dedicated, the constructor preconditions and the '
             'forwarding impls compute the reviewed reference terms (Shin & Lee periodic resource model; deadline-reduced '
             'blackout); the default jump-ahead service_time starts at demand, returns exactly under supply >= demand and '
             'advances by the missing service.'' (2) Laws PROVED of the current code for all parameters and arguments by linear entailment over the guarded cases of each function (sa/linarith.py: Fourier-Motzkin on the case polyhedra with quotient/remainder facts; nothing is run): '
             'provided_service(0) = 0 and service_time(0) = 0; 0 <= provided_service(d+1) - provided_service(d) <= 1; for d >= 1 '
             'provided_service(service_time(d)) >= d and provided_service(service_time(d) - 1) <= d - 1 (service_time is the exact '
             'inverse of the specialised implementations); Constrained[deadline := period] = Periodic, Periodic[budget := period] '
             '= Dedicated, Constrained[budget := deadline := period] = Dedicated for both methods -- under the assumptions the '
             'constructors assert (read off their panic conditions) and budget >= 1; and SUP-SHAPE: with b0 = (P-B)+(D-B), '
             'provided_service(delta) = 0 for delta <= b0, = delta - b0 for b0 <= delta <= b0 + B, = B for b0 + B <= delta <= b0 + P, '
             'and provided_service(delta + P) = provided_service(delta) + B for delta >= b0 -- these four clauses determine the '
             'function for every delta, so the code provably computes the supply of the placement "budget first, then as late as '
             'the deadline allows". NOT decided: that this placement is the worst one over all placements (the scheduling-model '
             'fact of the cited papers).',
        ref='21, 9 and 15'),
    'C10': dict(
        technique='canonical function summaries vs reviewed reference terms; zero/jitter/delegation clauses on terms; linear entailment over guarded cases for the closed-form models',
        text='(1) Arrival models: each number_arrivals / clone_with_jitter / helper is summarised as a canonical term and compared '
             'with a reviewed reference (ceil((delta+J)/T) with the delta=0 guard, delta-min lookup with whole-prefix '
             'repetition, prefix lookup, pointwise sums, forwards); every implementation of an ArrivalBound method must be in '
             'the table (new overrides are flagged). Separately: ZERO (0 at delta=0 by an accepted form), JIT (existing + '
             'added jitter / fresh Propagated / same jitter to all components), JIT-WINDOW (count over delta + jitter), DELEG '
             '(sum over every component, no adaptor).'' (2) Laws PROVED of the current code for all parameters and arguments by linear entailment over the guarded cases of each function (sa/linarith.py: Fourier-Motzkin on the case polyhedra with quotient/remainder facts; nothing is run): '
             'for Periodic and Sporadic number_arrivals(0) = 0, number_arrivals(d+1) >= number_arrivals(d), and for d >= 1 '
             'number_arrivals(d) is the least n with n*T >= d + J (= ceil((d+J)/T): attained, sub-additive). Not decided: that '
             'the table-driven models (Curve, ArrivalCurvePrefix, Poisson) bound real event sequences.',
        ref='7/C10 and 21'),
    'C11': dict(
        technique='canonical iterator terms vs reviewed references; lower-bound, seam-guard, merge/dedup and conversion clauses; linear entailment for the closed-form models',
        text='(1) Every steps_iter implementation (arrival and request bounds, default brute force, custom iterators with their '
             'next/advance loops as one-iteration summaries) is compared with a reviewed reference; no zero item '
             '(STEP-NONZERO: today it reports ArrivalCurvePrefix::steps_iter, a known finding); Sporadic/Propagated tails '
             'keep exactly the shifted values >= 2 over the same jitter; composites are dedup(kmerge/merge(all components)); '
             'step_offsets maps delta to delta-1.'' (2) Laws PROVED of the current code for all parameters and arguments by linear entailment over the guarded cases of each function (sa/linarith.py: Fourier-Motzkin on the case polyhedra with quotient/remainder facts; nothing is run): '
             'for Periodic and Sporadic steps_iter yields exactly the points of increase of number_arrivals: every yielded T*j + c '
             '(and the leading 1) is >= 1 and an increase; every d with number_arrivals(d-1) < number_arrivals(d) is T*j + c for '
             'j = (d - c)/T, in range and passing the filter; strictly increasing. Not decided: coincidence with the increase '
             'points for table-driven and composite bounds (shape clauses only).',
        ref='7/C11 and 21'),
    'C12': dict(
        technique='one-iteration loop summaries and value terms vs reviewed references; sliding-window shape rule; linear entailment for the periodic conversion',
        text='from_trace (whole window scanned newest-first before the push, eviction iff len > prefix), '
             'from_arrival_bound(_until) cut-off predicates incl. the keep-at-least-two-entries clause, ArrivalCurvePrefix '
             'construction / lookup / horizon-inclusive recording, prefix->Curve hand-over (horizon+1, njobs+1), the '
             'DeltaMinIterator loop and its (n, delta-1) payload: compared with reviewed references (textually, or proved equal '
             'term by term). CONV: for the periodic conversion the clause "coincides with its source" is PROVED for every interval '
             'length and period, by linear entailment from the code of Curve::number_arrivals specialised to the one-element '
             'delta-min vector the conversion builds. Not decided: domination beyond the prefix for the other sources.',
        ref='7/C12'),
    'C13': dict(
        technique='borrow-scope / escape / transitive may-borrow effect analysis on typed HIR + compile-fail witnesses + reference summaries',
        text='RefCell discipline of the shared extrapolation cache decided completely: no call that may borrow a RefCell '
             'inside a guard\'s scope (trait calls resolved by static receiver type), no guard returned/stored/captured; '
             'compile-fail witnesses (E0277, E0616, with compiling twins) that ExtrapolatingCurve is !Send, !Sync and its cache '
             'field private. Append-only writers (who-may-write on min_distance), extrapolate(query+k), k>=1, before the '
             'lookup, and reference summaries of extrapolate_next (max over k in 0..=n/2) / extrapolate* / min_distance / '
             'the on-demand steps iterator. Not decided: conservativeness against event sequences.',
        ref='7/C13'),
    'C14': dict(
        technique='reference summaries incl. one-iteration loop summaries; sliding-window shape; borrow analysis + compile-fail witnesses; shape + linear-entailment laws relating the three methods of each cost model',
        text='(1) Cost models: cost_of_jobs / job_cost_iter / least_wcet of Scalar, Multiframe, Curve, ExtrapolatingCurve and '
             'the trait defaults compared with reviewed references (sum of first n items, successive differences, least '
             'increment over 1..min(len,n)); from_trace scans the whole window newest-first after push/evict; '
             'extrapolate_next is min over k in 0..=n/2; cache discipline as in C13 for wcet::ExtrapolatingCurve with '
             '!Send/!Sync witnesses and extrapolate(n+1) before cost_of_jobs(n). (2) Decided per implementation, for all n: '
             'cost_of_jobs(0) = 0; cost_of_jobs(n) = sum of the first n items of job_cost_iter (default definition / repeat(c) with '
             'c*n / items are the telescoping differences of cost_of_jobs); least_wcet(n) <= each of the first n items (default / '
             'Scalar by entailment / Multiframe cycle / table-driven on the recorded prefix, where cost_of_jobs(n) = table[n-1] is '
             'proved with index congruence). Not decided: domination beyond the prefix; monotonicity of a user-supplied table.',
        ref='7/C14 and 21'),
    'C15': dict(
        technique='expression-tree / loop-summary comparison with the documented formula; loop-termination pattern; zero guard',
        text='Narrow claim: arrival_probability is e^-m * m^k / k! with m = rate*delta exactly as documented (expression tree; '
             'floating-point operations are not re-associated), number_arrivals accumulates that mass function from 0 until the '
             'cumulative probability plus epsilon reaches 1 and is 0 at delta = 0; and the termination clause -- the loop has no '
             'exit other than a floating-point comparison -- which is reported as a KNOWN FINDING (it does not return for means '
             'of about 745 and more, and returns values below the quantile once k! and mean^k overflow). NOT decided: that the '
             'returned value is the (1-epsilon) quantile, monotonicity in delta, any floating-point accuracy.',
        ref='9 and 15'),
    'C16': dict(
        technique='canonical terms vs reviewed references; delegation-form rule; inventory of trait-method implementations; definitional-shape laws',
        text='RBF = cost_of_jobs(number_arrivals(delta)), job_cost_iter takes number_arrivals(delta) items, '
             'least_wcet_in_interval composes likewise, all over the one N = number_arrivals(delta) (DEMAND-RBF); Aggregate/Slice: '
             'sum / min(default 0) over every component with arguments passed through, job_cost_iter merges the components\' items '
             'over the same collection (DEMAND-AGG); default service_needed = sum(job_cost_iter), default service_needed_by_n_jobs = '
             'sorted->rev->take(max_jobs)->sum and nobody overrides it (DEMAND-DEF) -- from which, with C14\'s COST-SUM, the relations '
             'the property states follow; auto_impl forwards; any new override of a RequestBound method is flagged as unreviewed. '
             'Not decided: anything about user-supplied models beyond the trait axioms.',
        ref='7/C16 and 21'),
    'C17': dict(
        technique='variance (monotonicity) type system over canonical terms + non-interference of the limit parameter',
        text='Every closure that reaches fixed_point::search* in the nine dedicated-processor analyses and the ROS 2 analyses is '
             'typed non-decreasing in the fixed-point variable, in every service_needed / number_arrivals / cost_of_jobs term, '
             'in blocking bounds, assumed response-time bounds and the polling-point bound; sums over task / callback sets have '
             'non-negative summands; the limit parameter reaches only the divergence-limit argument of search* (LIM-NI) and '
             'errors are never swallowed (ERR). A provably decreasing dependence (also on one arm of a kind match) is a '
             'violation; undecided variances are listed, not passed. Not decided: monotonicity of the numeric results.',
        ref='7/C17'),
}

NOT_YET = 'clauses designed in DESIGN.md section 7 but not yet implemented in this commit'
NA = {
}


def main():
    from sa import props
    all_ids = [json.loads(l)['id'] for l in open(os.path.join(VERIF, 'properties.jsonl'))]
    checks = []
    for pid in all_ids:
        if pid in CLAIMS and pid in props.PROPS:
            c = CLAIMS[pid]
            checks.append(dict(
                property_id=pid,
                quick_cmd=f'./check {pid} --tier quick',
                thorough_cmd=f'./check {pid} --tier thorough',
                evidence_file=f'/verif/evidence/{pid}.json',
                replay_cmd_template=f'./check {pid} --explain {{path}}',
                engine='sa',
                level_claimed=dict(category='other', text=c['text'], design_ref='DESIGN.md section ' + c['ref']),
                level_note=TRUSTED,
                technique=c['technique'],
            ))
    na = []
    for pid in all_ids:
        if pid in CLAIMS and pid in props.PROPS:
            continue
        na.append(dict(property_id=pid, reason=NA.get(pid, NOT_YET)))
    man = dict(
        version=1,
        setup_cmd='./setup.sh',
        hooks=dict(
            guard='brandenburg_response_time_analysis_rs_verif',
            enable='none needed: the analysis reads the unmodified source (no hooks were added to /repo)',
            baseline_off_cmd='cd /repo && cargo test --workspace --no-fail-fast --offline',
            source_commits=[],
            add_only=True,
        ),
        engines=[
            dict(name='rta-facts', path='rta-facts/', serves_properties=[c['property_id'] for c in checks],
                 kind_free_text='rustc_private driver: serialises type-checked HIR (resolved callees, types, '
                                'adjustments, expansion info) of /repo as JSON, in a debug and a release configuration'),
            dict(name='sa', path='sa/', serves_properties=[c['property_id'] for c in checks],
                 kind_free_text='Python rule engine: abstract interpreter to canonical linear-form terms, '
                                'directional comparison, iterator-pipeline, guard, borrow-scope and site rules'),
        ],
        checks=checks,
        not_applicable=na,
        notes='All checks are static: nothing of /repo is executed. Every run re-extracts facts from /repo\'s '
              'current working tree. Known genuine defects are listed in KNOWN_FINDINGS.txt.',
    )
    with open(os.path.join(VERIF, 'MANIFEST.json'), 'w') as f:
        json.dump(man, f, indent=1)
    print('claimed:', [c['property_id'] for c in checks])
    print('not applicable:', [n['property_id'] for n in na])


if __name__ == '__main__':
    main()
