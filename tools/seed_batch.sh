#!/bin/bash
# tools/seed_batch.sh "<srcdir> <name> <props...>" ...   compact summary per seed
for spec in "$@"; do
  set -- $spec
  src=$1; name=$2; shift 2
  out=$(tools/seed_verify.sh $src $name "$@" 2>&1)
  suite=$(echo "$out" | grep "^suite with patch" | grep -c "80 passed")
  dwith=$(echo "$out" | grep "^demo with patch" | grep -c -E "FAILED|panicked|error")
  dwithout=$(echo "$out" | grep "^demo without patch" | grep -c "test result: ok")
  viol=$(echo "$out" | grep "rule=" | sed 's/^ *//' | sort -u | cut -c1-110 | tr '\n' ';')
  echo "== $name suite_ok=$suite demo_fails_with=$dwith demo_passes_without=$dwithout"
  echo "   $viol"
done
