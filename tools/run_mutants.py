#!/usr/bin/env python3
"""tools/run_mutants.py [ids...|--seeded|--equivalent|--breaking] : replay catalogue mutants / seeded changes against scratch copies"""
import sys, os, json
sys.path.insert(0, '/verif')
from sa import mutate, props
from concurrent.futures import ProcessPoolExecutor

def work(m):
    return mutate.evaluate(m, '/repo', sorted(props.PROPS))

def main():
    args = sys.argv[1:]
    muts = mutate.load_catalogue() + mutate.seeded()
    if '--seeded' in args:
        muts = [m for m in muts if m['id'].startswith('seed-')]
    elif '--equivalent' in args:
        muts = [m for m in muts if m['kind'] == 'equivalent']
    elif '--breaking' in args:
        muts = [m for m in muts if m['kind'] == 'breaking' and not m['id'].startswith('seed-')]
    elif args:
        muts = [m for m in muts if m['id'] in args]
    with ProcessPoolExecutor(max_workers=8) as ex:
        results = list(ex.map(work, muts))
    bad = 0
    for r in results:
        line = f"{r['id']:12s} {r['kind']:10s} {r['status']:14s}"
        if r['status'] == 'skipped':
            line += ' ' + r['reason'][:120]
        else:
            line += ' fired=' + ','.join(sorted(r.get('fired', {}))) + (' INFRA=' + ','.join(r['infra']) if r.get('infra') else '')
            if r['status'] not in ('detected', 'silent'):
                bad += 1
                for p, keys in r.get('fired', {}).items():
                    line += f"\n      {p}: " + '; '.join(k[:110] for k in keys[:4])
        print(line)
    print(f'{len(results)} mutants, {bad} unexpected')
    json.dump(results, open('/verif/.cache/mutants-last.json', 'w'), indent=1)

main()
