#!/usr/bin/env python3
"""Replay the behaviour-preserving refactorings written by independent sub-agents (refactorings/<id>/patch.diff):
every check should stay silent.  Prints which rule instances fire (false alarms)."""
import sys, os, json, shutil, subprocess
sys.path.insert(0, '/verif')
from sa import mutate, props
from concurrent.futures import ProcessPoolExecutor

def work(name):
    d = mutate.make_copy('/repo')
    try:
        r = subprocess.run(['patch', '-p1', '-s', '-f', '-i', os.path.join('/verif/refactorings', name, 'patch.diff')], cwd=d, capture_output=True, text=True)
        if r.returncode != 0:
            return name, 'patch does not apply', {}
        res = mutate.run_props(d, sorted(props.PROPS))
        return name, 'ok', {p: keys for p, (code, keys) in res.items() if code}
    finally:
        shutil.rmtree(d, ignore_errors=True)

names = sorted(n for n in os.listdir('/verif/refactorings') if os.path.isdir(os.path.join('/verif/refactorings', n)))
if len(sys.argv) > 1:
    names = [n for n in names if n in sys.argv[1:]]
with ProcessPoolExecutor(max_workers=8) as ex:
    out = list(ex.map(work, names))
silent = 0
for name, st, fired in out:
    if st != 'ok':
        print(f'{name:10s} {st}')
    elif not fired:
        silent += 1
        print(f'{name:10s} silent')
    else:
        print(f'{name:10s} FALSE-ALARM ' + ' '.join(sorted(fired)))
        for p, keys in sorted(fired.items()):
            print('      ' + p + ': ' + '; '.join(k[:100] for k in keys[:4]))
print(f'{silent}/{len(out)} silent')
json.dump([(n, s, f) for n, s, f in out], open('/verif/.cache/refactorings-last.json', 'w'), indent=1)
