#!/bin/bash
# tools/scratch.sh <patch.diff> <cmd...> : apply a patch to a scratch copy of /repo, run <cmd> with RTA_REPO pointing at it, remove the copy
p=$(realpath "$1"); shift
d=$(mktemp -d /tmp/rta-scratch.XXXXXX)
rsync -a --exclude target --exclude .git /repo/ "$d/"
(cd "$d" && patch -p1 -s -f -i "$p") || { echo "patch does not apply"; rm -rf "$d"; exit 2; }
RTA_REPO="$d" "$@"
rc=$?
rm -rf "$d"
exit $rc
