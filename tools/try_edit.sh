#!/bin/bash
# tools/try_edit.sh '<python-expr old>' ... : apply one textual edit to a scratch copy of /repo and run checks on it
# usage: tools/try_edit.sh <file> <old> <new> <prop> [<prop>...]
set -e
f="$1"; old="$2"; new="$3"; shift 3
d=$(mktemp -d /tmp/rta-mut.XXXXXX)
rsync -a --exclude target --exclude .git /repo/ "$d/"
python3 - "$d/$f" "$old" "$new" <<'PY'
import sys
p, old, new = sys.argv[1:4]
s = open(p).read()
n = s.count(old)
if n != 1:
    print(f"edit does not apply uniquely ({n} matches)"); sys.exit(3)
open(p, 'w').write(s.replace(old, new))
PY
(cd "$d" && CARGO_TARGET_DIR=/verif/.cache/target-mutcheck cargo check --offline --quiet --lib 2>&1 | grep -E "^error" | head -3) || true
for p in "$@"; do
  (cd /verif && python3 -m sa.main "$p" --repo "$d" 2>&1 | grep -E "VIOLATION|rule=|found:|INFRA|rule instances" | head -12) || true
done
rm -rf "$d"
