//! Positive and negative controls for the zero-expected rules of /verif/sa.
//!
//! This crate is never run.  It is analysed by the same driver and the same rules as /repo on every
//! check: each `bad_*` function contains exactly one deliberate violation that its rule must report,
//! each `good_*` twin must stay silent.  A rule that stops firing on its control makes the check fail
//! with an infrastructure error instead of passing vacuously.
#![allow(dead_code, unused_variables, clippy::all)]

use std::cell::RefCell;
use std::rc::Rc;

#[derive(Clone, Copy, PartialEq, Eq, PartialOrd, Ord, Debug)]
pub struct Duration {
    val: u64,
}

impl Duration {
    pub const fn from(v: u64) -> Duration {
        Duration { val: v }
    }
    pub const fn zero() -> Duration {
        Duration { val: 0 }
    }
    pub const fn saturating_sub(&self, rhs: Duration) -> Duration {
        Duration { val: self.val.saturating_sub(rhs.val) }
    }
}

impl std::ops::Sub for Duration {
    type Output = Duration;
    fn sub(self, rhs: Duration) -> Duration {
        Duration { val: self.val - rhs.val }
    }
}

impl std::ops::Add for Duration {
    type Output = Duration;
    fn add(self, rhs: Duration) -> Duration {
        Duration { val: self.val + rhs.val }
    }
}

// ------------------------------------------------------------------ SITE

pub fn bad_raw_sub(a: Duration, b: Duration) -> Duration {
    a - b
}

pub fn good_guarded_sub(a: Duration, b: Duration) -> Duration {
    if a > b {
        a - b
    } else {
        Duration::zero()
    }
}

pub fn good_early_return_sub(a: Duration, b: Duration) -> Duration {
    if b > a {
        return Duration::zero();
    }
    a - b
}

pub fn good_filter_map_sub(xs: &[u64], j: u64) -> Vec<u64> {
    xs.iter().copied().filter(move |x| *x > j).map(move |x| x - j).collect()
}

pub fn bad_filter_map_sub(xs: &[u64], j: u64) -> Vec<u64> {
    xs.iter().copied().filter(move |x| *x + 2 > j).map(move |x| x - j).collect()
}

pub fn bad_index(v: &[u64], i: usize) -> u64 {
    v[i]
}

pub fn good_index(v: &[u64], i: usize) -> u64 {
    if i < v.len() {
        v[i]
    } else {
        0
    }
}

pub fn bad_index_minus_one(v: &[u64], i: usize) -> u64 {
    v[i - 1]
}

pub fn good_loop_index(v: &[u64]) -> u64 {
    let mut acc = 0;
    for i in 1..v.len() {
        acc += v[i] + v[i - 1];
    }
    acc
}

pub fn bad_unwrap(v: &[u64]) -> u64 {
    *v.last().unwrap()
}

pub fn good_unwrap(r: Result<u64, ()>) -> u64 {
    if r.is_err() {
        0
    } else {
        r.unwrap()
    }
}

pub fn bad_assert(x: u64) -> u64 {
    assert!(x > 3);
    x
}

// ------------------------------------------------------------------ TERM

pub fn bad_unbounded_search(f: &dyn Fn(u64) -> bool) -> Option<u64> {
    (0..).filter(|t| f(*t)).next()
}

pub fn good_bounded_search(f: &dyn Fn(u64) -> bool, max: u64) -> Option<u64> {
    (0..=max).filter(|t| f(*t)).next()
}

pub fn bad_drain_infinite() -> u64 {
    (1u64..).map(|x| x * 2).sum()
}

pub fn good_drain_bounded(n: usize) -> u64 {
    (1u64..).map(|x| x * 2).take(n).sum()
}

pub fn bad_loop_no_progress(limit: u64, f: &dyn Fn(u64) -> u64) -> u64 {
    let mut x = 1;
    while x <= limit {
        let y = f(x);
        if y == x {
            return x;
        }
        x = y;
    }
    0
}

/// a counter is incremented, but the only exit is a floating-point comparison that need not ever hold
pub fn bad_float_exit_loop(p: f64) -> u64 {
    let mut acc = 0.0;
    let mut n = 0;
    loop {
        acc += p / (n as f64 + 1.0);
        if acc >= 1.0 {
            break;
        }
        n += 1;
    }
    n
}

pub fn good_loop_progress(limit: u64, f: &dyn Fn(u64) -> u64) -> u64 {
    let mut x = 1;
    while x <= limit {
        let y = f(x);
        if y <= x {
            return y;
        } else {
            x = y;
        }
    }
    0
}

// ------------------------------------------------------------------ PROFILE

pub fn bad_profile_dependent(x: u64) -> u64 {
    #[cfg(debug_assertions)]
    let x = x + 1;
    x
}

pub fn good_profile_independent(x: u64) -> u64 {
    debug_assert!(x < u64::MAX);
    x
}

// ------------------------------------------------------------------ CACHE (RefCell discipline)

pub struct Cache {
    cell: Rc<RefCell<Vec<u64>>>,
}

impl Cache {
    fn inner_query(&self, n: usize) -> u64 {
        let mut v = self.cell.borrow_mut();
        while v.len() <= n {
            let k = v.len() as u64;
            v.push(k);
        }
        v[n]
    }

    /// re-entrant borrow: the guard is alive across a call that borrows the same cell
    pub fn bad_reentrant(&self, n: usize) -> u64 {
        let v = self.cell.borrow();
        let first = v.len() as u64;
        first + self.inner_query(n)
    }

    pub fn good_sequential(&self, n: usize) -> u64 {
        let first = self.cell.borrow().len() as u64;
        first + self.inner_query(n)
    }

    /// the guard escapes into the returned iterator
    pub fn bad_escape<'a>(&'a self) -> Box<dyn Iterator<Item = u64> + 'a> {
        let g = self.cell.borrow();
        Box::new((0..3).map(move |i| g[i]))
    }

    /// not append-only: overwrites a cached element
    pub fn bad_overwrite(&self) {
        let mut v = self.cell.borrow_mut();
        if !v.is_empty() {
            v[0] = 7;
        }
    }

    /// lookup without extending the cache first
    pub fn bad_lookup_without_extend(&self, n: usize) -> u64 {
        let v = self.cell.borrow();
        v[n]
    }
}

// ------------------------------------------------------------------ STEP

pub struct Model {
    pub period: u64,
    pub jitter: u64,
}

impl Model {
    /// yields 0 first: interval lengths must be >= 1
    pub fn bad_steps_zero<'a>(&'a self) -> Box<dyn Iterator<Item = u64> + 'a> {
        Box::new(std::iter::once(0).chain((0..).map(move |j| self.period * j + 1)))
    }

    pub fn good_steps<'a>(&'a self) -> Box<dyn Iterator<Item = u64> + 'a> {
        Box::new((0..).map(move |j| self.period * j + 1))
    }
}

// ------------------------------------------------------------------ ERR / LIM

pub fn search(limit: u64, w: &dyn Fn(u64) -> u64) -> Result<u64, u64> {
    let mut x = 1;
    while x <= limit {
        let y = w(x);
        if y <= x {
            return Ok(y);
        } else {
            x = y;
        }
    }
    Err(limit)
}

pub fn bad_dropped_error(limit: u64, w: &dyn Fn(u64) -> u64) -> Result<u64, u64> {
    let l = search(limit, w).unwrap_or(limit);
    Ok(l)
}

pub fn good_propagated_error(limit: u64, w: &dyn Fn(u64) -> u64) -> Result<u64, u64> {
    let l = search(limit, w)?;
    Ok(l)
}
